#!/venv/bin/python
"""usage: eval_seeds.py <PROP> <outdir> <worktree> [check ids...]
For each mutant dir under <outdir>/m*: validate in the worktree (tests + demo with/without) and run ./check <ids> --src <worktree>/src."""
import subprocess, sys, os, glob, json
prop, outdir, wt = sys.argv[1:4]
checks = sys.argv[4:] or [prop]
env = dict(os.environ, PYTHONPATH=f"{wt}/src")
def sh(cmd, **kw):
    return subprocess.run(cmd, shell=True, capture_output=True, text=True, **kw)
sh(f"git -C {wt} checkout -q -- . && git -C {wt} checkout -q --detach main")
res = {}
for d in sorted(glob.glob(f"{outdir}/m*")):
    k = os.path.basename(d)
    sh(f"git -C {wt} checkout -q -- .")
    a = sh(f"git -C {wt} apply {d}/patch.diff")
    if a.returncode:
        res[k] = {"apply": "FAIL " + a.stderr[:200]}
        continue
    t = sh(f"cd {wt} && /venv/bin/python -m pytest -q -p no:cacheprovider --timeout=900 2>&1 | tail -1", env=env).stdout.strip()
    w = sh(f"cd {d} && /venv/bin/python demo.py", env=env).returncode
    out = {}
    for c in checks:
        r = sh(f"cd /verif && ./check {c} --tier quick --src {wt}/src")
        lines = [l for l in r.stdout.splitlines() if l.startswith(("VIOLATION", "UNDECIDED", "CHECKER-FAULT", "FAILED-OBLIGATION", "KNOWN"))]
        out[c] = {"exit": r.returncode, "lines": lines[:6]}
    sh(f"git -C {wt} checkout -q -- .")
    wo = sh(f"cd {d} && /venv/bin/python demo.py", env=env).returncode
    res[k] = {"tests": t, "demo_with": w, "demo_without": wo, "checks": out}
    print(k, json.dumps(res[k], indent=1), flush=True)
json.dump(res, open(f"{outdir}/eval.json", "w"), indent=1)
