#!/bin/bash
# usage: validate_seed.sh <worktree> <seed dir>  -> checks: tests pass with patch, demo fails with / passes without
wt=$1; sd=$2
cd $wt && git checkout -q -- . && git apply $sd/patch.diff || { echo APPLY-FAIL; exit 1; }
t=$(PYTHONPATH=$wt/src /venv/bin/python -m pytest -q -p no:cacheprovider --timeout=900 2>&1 | tail -1)
PYTHONPATH=$wt/src /venv/bin/python $sd/demo.py >/dev/null 2>&1; with=$?
git checkout -q -- .
PYTHONPATH=$wt/src /venv/bin/python $sd/demo.py >/dev/null 2>&1; without=$?
echo "tests: $t | demo with patch exit=$with | without exit=$without"
