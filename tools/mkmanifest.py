#!/venv/bin/python
"""Regenerate MANIFEST.json from props.py + manifest_meta.py (claimed checks and not_applicable reasons)."""
import json, os, sys
HERE = os.path.dirname(os.path.dirname(os.path.abspath(__file__)))
sys.path.insert(0, HERE)
import props, manifest_meta as mm

ids = [json.loads(l)["id"] for l in open(os.path.join(HERE, "properties.jsonl"))]
checks = []
for pid in ids:
    if pid in props.SPECS and pid in mm.CLAIMED:
        meta = mm.CLAIMED[pid]
        checks.append({
            "property_id": pid,
            "quick_cmd": f"./check {pid} --tier quick",
            "thorough_cmd": f"./check {pid} --tier thorough",
            "evidence_file": f"/verif/evidence/{pid}.json",
            "replay_cmd_template": "./check --replay {path}",
            "engine": "pyvc",
            "level_claimed": {"category": props.SPECS[pid].level, "text": meta["text"], "design_ref": meta.get("design_ref", "DESIGN.md section 5")},
            "level_note": meta["note"],
            "technique": meta.get("technique", props.SPECS[pid].technique),
        })
na = [{"property_id": pid, "reason": mm.NOT_APPLICABLE.get(pid, "in reach of the technique (DESIGN.md section 5); check not built yet")}
      for pid in ids if pid not in {c["property_id"] for c in checks}]
m = {
    "version": 1,
    "setup_cmd": "true",
    "hooks": {"guard": "SUPERREC2_VERIF", "enable": "no hooks: contracts are sidecar files under /verif/contracts; nothing in /repo is instrumented", "baseline_off_cmd": "cd /repo && /venv/bin/python -m pytest -ra -q -p no:cacheprovider --timeout=900 --continue-on-collection-errors", "source_commits": [], "add_only": True},
    "engines": [{"name": "pyvc", "path": "/verif/pyvc", "serves_properties": [c["property_id"] for c in checks], "kind_free_text": "verification-condition generator for a Python subset (real AST of /repo + sidecar contracts), SMT back ends z3 5.1 and cvc5 1.0.3; native contract evaluation for replay and bounded stand-ins"}],
    "checks": checks,
    "not_applicable": na,
    "notes": mm.NOTES,
}
json.dump(m, open(os.path.join(HERE, "MANIFEST.json"), "w"), indent=1)
print("checks:", [c["property_id"] for c in checks])
