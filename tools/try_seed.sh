#!/bin/bash
# usage: tools/try_seed.sh <patch.diff> <property...>   (applies to /repo, runs checks, reverts)
patch=$1; shift
cd /repo && git apply "$patch" || { echo "patch does not apply"; exit 9; }
cd /verif
for p in "$@"; do ./check $p --tier quick; echo "exit=$?"; done
git -C /repo checkout -- . 
