#!/opt/veriftools/pyvenv/bin/python
"""Validate MANIFEST.json and every evidence file against the given schemas."""
import json, sys, glob, jsonschema
ok = True
try:
    jsonschema.validate(json.load(open('/verif/MANIFEST.json')), json.load(open('/root/.vp/MANIFEST.schema.json')))
    print('manifest ok')
except Exception as e:
    ok = False; print('MANIFEST INVALID', str(e)[:500])
sch = json.load(open('/root/.vp/EVIDENCE.schema.json'))
for f in sorted(glob.glob('/verif/evidence/*.json')):
    try:
        jsonschema.validate(json.load(open(f)), sch); print(f, 'ok')
    except Exception as e:
        ok = False; print(f, 'INVALID', str(e)[:300])
sys.exit(0 if ok else 1)
