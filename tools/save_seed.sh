#!/bin/bash
# usage: save_seed.sh <prop> <seed src dir> <name> <detected-by text>
prop=$1; src=$2; name=$3; det=$4
d=/verif/seeded/$name; mkdir -p $d; cp $src/patch.diff $src/demo.py $d/
python3 - "$d" "$src/notes.txt" "$prop" "$det" <<'PY'
import json,sys
d,notes,prop,det=sys.argv[1:5]
json.dump({"property":prop,"breaks_and_needs":open(notes).read().strip(),"validated":"tools/validate_seed.sh: the 55 baseline tests pass with the patch; demo.py exits 1 with it and 0 without","detected_by":det,"ran":f"tools/try_seed.sh seeded/{d.split('/')[-1]}/patch.diff {prop}"},open(d+"/meta.json","w"),indent=1)
PY
