import sys, time
sys.path.insert(0, "/verif")
from pyvc.symex import Engine
from pyvc.load import load_contracts
from pyvc import prove
import os
E = Engine(os.environ.get("PYVC_SRC", "/repo/src"))
names = sys.argv[1].split(",")
load_contracts(E, names)
targets = [t for t in E.registry.contracts if len(sys.argv) < 3 or any(a in t for a in sys.argv[2:])]
reps = [prove.generate(E, t) for t in targets]
for r in reps:
    if getattr(r, "fault", None): print("FAULT", r.target); print(r.fault)
    if r.unbound: print("UNBOUND", r.target, r.unbound)
import re
only = os.environ.get('PYVC_ONLY')
if only:
    for r in reps:
        r.obligations = [o for o in r.obligations if re.search(only, o.name)]
t0 = time.time()
prove.discharge(E, reps)
for r in reps:
    for o in r.obligations:
        tag = "ok " if o.ok else "FAIL"
        print(tag, o.name, o.kind, o.result.status, o.result.solver, f"{o.result.time_s:.2f}s", o.result.attempts if not o.ok else "")
print("solve time", time.time() - t0)
