import sys, os
sys.path.insert(0, "/verif")
from pyvc.symex import Engine
from pyvc.load import load_contracts
from pyvc import prove
E = Engine(os.environ.get("PYVC_SRC", "/repo/src"))
load_contracts(E, sys.argv[1].split(","))
pat = sys.argv[2]
defs = sys.argv[3] if len(sys.argv) > 3 else None
fuel = int(sys.argv[4]) if len(sys.argv) > 4 else None
nl = sys.argv[5] if len(sys.argv) > 5 else "exact"
for t in E.registry.contracts:
    if pat.startswith(t + "/"):
        r = prove.generate(E, t)
        for o in r.obligations:
            if o.name == pat:
                open("/tmp/vc.smt2","w").write(prove.vc_text(E, o, defs=defs, fuel=fuel or o.fuel, nl=nl))
                print("dumped", o.name, "fuel", fuel or o.fuel); sys.exit()
