import sys
sys.path.insert(0, "/verif")
from pyvc.symex import Engine
from pyvc.load import load_contracts
from pyvc import prove
import os
E = Engine(os.environ.get("PYVC_SRC", "/repo/src"))
load_contracts(E, sys.argv[1].split(","))
pat = sys.argv[2]
defs = sys.argv[3] if len(sys.argv) > 3 else None
for t in E.registry.contracts:
    if pat.startswith(t):
        r = prove.generate(E, t)
        for o in r.obligations:
            if o.name == pat or pat in o.name:
                open("/tmp/vc.smt2","w").write(prove.vc_text(E, o, defs=defs))
                print("dumped", o.name); sys.exit()
