"""Texts for MANIFEST.json (claimed levels, not-applicable reasons)."""

NOTES = ("Exit codes of ./check: 0 held, 1 VIOLATION (replayed input, or refuted obligation with 'no-failing-input-found'), "
         "2 undecided (no VIOLATION line), 3 checker fault.  See DESIGN.md section 4.")

CLAIMED = {
    "C18": dict(
        text="Unbounded proof: the four functions of utils/subsequences.py are verified from their real AST against recursive spec functions "
             "(greedy embedding mask, bit selection, sub-mask, run count with end rule) with loop invariants; six L2 lemmas by induction. "
             "A runtime evaluation of the same contracts on all masks < 2**6 is run as a labelled bounded stand-in and as the concretiser of failed obligations.",
        note="Trusted: pyvc's encoding of the Python subset; z3/cvc5 'unsat'; bit-operation and bit_length axioms; the reading of the English clause by the spec functions "
             "(compared with an independent groupby reading in the thorough tier). The L2 round-trip lemmas (mask<->subsequence identity) are bounded, not proved.",
    ),
}

CLAIMED["C16"] = dict(
    text="Unbounded proof of Entry.__init__ (both call shapes), value, infos, is_infinite and Entry.update from the real AST: for every history, "
         "policy pair and candidate batch the value is the optimum of the old value and the candidates and the tag set is exactly (ALL) / a singleton "
         "subset of (ANY) / empty (NONE) the tags of optimal candidates; relational loop invariants with quantifiers, no bound on history length. "
         "EntryProxy.value / infos / is_infinite are proved too (a cell whose storage slot is None reads as infinitely bad with no tags, an existing one "
         "reads as its Entry), relative to the ASSUMED contract of EntryProxy._get_real (the storage walk). "
         "Entry.combine, Entry.__iter__ and the Table / TableProxy classes: see level_note.",
    note="Trusted: pyvc encoding; z3/cvc5; 'tagged' means truthy info; infinity.inf modelled as a three-constructor datatype (float inf identified with inf). "
         "Table / TableProxy / EntryProxy._get_real / EntryProxy.update (lazy cell creation in nested dict/list storage) are covered by the bounded stand-in only (listed in the evidence).",
)

CLAIMED["C17"] = dict(
    text="Unbounded proof of the range-minimum structure (_ilog2, RangeMinQuery.__init__ with nested loop invariants over the sparse table, "
         "RangeMinQuery.__call__) against the recursive spec rmin, with the split / overlap lemmas by induction; unbounded proof of is_ancestor_of, "
         "is_strict_ancestor_of, is_comparable and distance against the tree vocabulary (anc, dep, lca2). The Euler-tour core "
         "(LowestCommonAncestor.__init__, __call__, level) is an ASSUMED contract in that vocabulary, validated only by the bounded stand-in "
         "(all rooted ordered trees <= 6/7 nodes, all node tuples) - stated in the evidence under not_decided and trusted_base.",
    note="Trusted: pyvc encoding; z3/cvc5; elements totally ordered by '<'; first-order tree axioms (validated on concrete trees); "
         "assumed contracts of LowestCommonAncestor.__call__ and .level; ghost field g_data (the array the table was built from).",
)

CLAIMED["C20"] = dict(
    text="Unbounded proof of the union-find core from the real AST: DisjointSet.__init__, find (recursive, with path compression; termination measure on ranks), "
         "unite (merges exactly the two classes, reports whether they differed, decrements the group counter accordingly), __len__ and to_list (reports exactly "
         "the classes: every element once, each group inside one class, no class split, no empty group; the filtering list comprehension is encoded as a strictly "
         "increasing position map), against a ghost representative map with a representation invariant. Triple decomposition, tree reconstruction, all-trees, supertree and binary() "
         "are covered by a bounded stand-in against an explicit enumeration oracle (<= 5 leaves, union histories <= 3 on 5 elements) - labelled bounded.",
    note="Trusted: pyvc encoding; z3/cvc5; ghost field g_rep and the ghost relabelling statements inserted before the three parent-link assignments of unite; "
         "elements are in range (precondition). Bounded parts are not counted as proved.",
)

CLAIMED["C19"] = dict(
    text="Single-ordering routine: unbounded proof from the real AST of toposort (Kahn's algorithm) - a returned list contains every vertex exactly once with every edge "
         "forward, None is returned only if no sequence at all is a topological ordering, and the while loop terminates (measure len(graph) - len(result)) (ghost parameter = arbitrary candidate ordering; impossibility lemma by "
         "induction) - relative to four ASSUMED first-order facts about a ghost counting function (in-degree = number of predecessors not yet output), three ASSUMED pigeonhole "
         "lemmas about len(dict) and collections.deque modelled as a sequence. All-orderings routine (each ordering exactly once, none on a cycle): bounded only - toposort_all "
         "and toposort are run on every digraph with self-loops on <= 3 vertices (<= 4 thorough) and on random digraphs up to 7 vertices and compared with permutation "
         "filtering (multiset equality, so repetitions are seen). Level stays exploration because half of the property is bounded.",
    note="Trusted: pyvc encoding; z3/cvc5; the assumed counting facts / pigeonhole lemmas / deque model (each evaluated on all digraphs <= 3 (4) vertices by the stand-in "
         "toposort:counting-axioms); precondition: successors are keys of the dict. toposort_all / _toposort_all_bt are not discharged (DESIGN.md 10.6).",
    technique="contract-based deductive verification of toposort (sidecar contract, loop invariants, ghost state, inductive lemma; z3/cvc5) + bounded stand-in for toposort_all (runtime oracle comparison, stated bound)",
)

CLAIMED["C06"] = dict(
    text="Unbounded proof from the real AST that node_event, _cost_rec, cost, _ordered_labeling_cost, _unordered_labeling_cost, reconciliation_cost, "
         "labeling_cost and SuperReconciliationOutput.cost equal the documented event model written as spec functions in the tree vocabulary "
         "(event by child-subtree membership, not by lca queries; unit cost + one full loss per skipped species edge; segmental losses per lost run "
         "via the C18 segment-distance contract, per charged edge for sets; free copy minimised at duplications, fixed at transfers), for every "
         "well-formed (valid, total) reconciliation, tree and cost vector. Callees are used through their C17/C18 contracts.",
    note="Trusted: pyvc encoding; z3/cvc5; tree axioms; assumed ete3 contracts (is_leaf, children, traverse pre-order covers every node once, parents first); "
         "assumed LowestCommonAncestor core (lca / level) from C17; products of two symbolic integers abstracted in one back-end strategy (sound). "
         "The CLI clause of the property is not decided.",
)

CLAIMED["C07"] = dict(
    text="Unbounded proof from the real AST that reconcile_lca returns a total mapping sending every object node to the LCA of the species of the "
         "leaves below it (post-order loop invariant, lca through the C17 contract), and that this mapping is valid with only speciations and "
         "duplications; L2 lemmas by induction over the object tree show the recursive lca_map is the greatest common ancestor of the leaf species. "
         "'Minimum cost for all dup/loss >= 0, unique when loss > 0' is a theorem of the duplication-loss model and is NOT proved: it is covered "
         "only by a bounded comparison with brute force (object trees <= 4/5 leaves), labelled bounded.",
    note="Trusted: pyvc encoding; z3/cvc5; tree axioms; assumed ete3 post-order traversal contract (children before parents, every node once); "
         "assumed LowestCommonAncestor.__call__ contract (C17).",
)

NOT_APPLICABLE = {
    "C14": "float layout geometry and a two-run (orientation) relation over 360 lines of dict-state code: no contract within reach decides it (DESIGN.md section 5)",
    "C09": "metamorphic / cross-process relations between runs; a functional contract speaks about one call (DESIGN.md section 5)",
    "C10": "relations between different algorithms' results; only corollaries of C01/C07 contracts (DESIGN.md section 5)",
    "C11": "round trip dominated by ete3's Newick writer/parser, an external unverified pair; assuming its contract assumes the property",
    "C12": "process-level behaviour (argparse, files, JSON lines, exit status): outside function contracts",
}

CLAIMED["C01"] = dict(
    text="Bounded (labelled exploration): reconcile_thl, reconcile_exhaustive and generate_all are run on all binary object trees <= 3 (4 thorough) leaves x species trees "
         "<= 3 (4) leaves with sampled leaf assignments (species carrying no object included) and cost vectors of the coherent region (zero and infinite costs included), "
         "and compared with an independent enumeration + recount of ALL species mappings: validity, cost = minimum, enumerator yields every valid reconciliation exactly once, "
         "no exception. In addition the evaluator the solvers re-rank with (node_event, _cost_rec, cost) is PROVED from the real AST against the event-model spec (C06 contracts). "
         "The Bellman contracts of the THL table functions are not discharged, so nothing about the solvers themselves is counted as proved.",
    note="Trusted: the brute-force oracle (standin/recon.py: parent-chain ancestry, recount from the property's event model); bounds as stated; for the proved cone: pyvc encoding, z3/cvc5, tree axioms, "
         "assumed ete3 and LowestCommonAncestor core contracts. Four genuine defects found by this check were repaired in /repo (fix: commits, see known_findings.jsonl).",
)
CLAIMED["C05"] = dict(
    text="Proof at the tag level: Entry.update, Entry.combine and Entry.__iter__ are verified from the real AST (unbounded histories, all policy pairs): under ALL the retained tags are "
         "exactly the tags of optimal candidates / optimal pairs, under ANY exactly one of them, and iteration yields each retained tag once with the entry's value. "
         "Solver level (every optimal solution returned exactly once under ALL, exactly one under ANY, same cost, empty only without solution): bounded stand-in only - thl and exhaustive "
         "against the complete optimal set of a brute-force oracle on the C01 scope.",
    note="Trusted: pyvc encoding; z3/cvc5; 'tagged' = truthy info; brute-force oracle for the bounded part. Ordered / unordered solvers are covered under C02 / C03.",
)

_STEP = ("The recurrence (Bellman) contract of the table step function is written as an executable specification from the documented event model - every pair of child placements "
         "enumerated explicitly, value = optimum, ALL = exactly the optimal placements, ANY = one of them, frame = nothing else written - and evaluated at run time on the REAL function "
         "with randomly filled REAL tables (species trees <= 4 leaves; 1500 quick / 20000 thorough tables)")
CLAIMED["C01"]["text"] += " " + _STEP + " for _compute_thl_try_speciation and _compute_thl_try_duplication_transfer: bounded, not proved."
CLAIMED["C02"] = dict(
    text="Bounded (labelled exploration): sreconcile_base_spfs and sreconcile_extended_spfs are run under ALL and ANY on 2400 (24000 thorough) random binary inputs (object trees 2-4 (5) leaves, species trees 1-3 (4) leaves, "
         "1-4 families, consistent and inconsistent leaf orders, optional prescribed root order, cost vectors of the coherent region incl. zero and infinite entries) and compared with an independent optimum over every species mapping "
         "(base: the LCA mapping), every compatible root order and every labelling; empty result iff no order is compatible. " + _STEP + " for _compute_spfs_entry. "
         "PROVED from the real AST: the callees the recurrence rests on - subseq_complete, mask_from_subseq, subseq_from_mask, subseq_segment_dist (C18 contracts) and the ordered labelling cost / total cost the results are ranked by (C06 contracts). "
         "The SPFS table contracts themselves are not discharged.",
    note="Trusted: the oracle (standin/srec.py: memoised recursion over (node, species, mask) cross-checked against explicit enumeration on tiny inputs in the thorough tier); stated bounds; for the proved cone the C06/C18 trusted base. "
         "A genuine defect found by this oracle (segmental-loss cost 0 accepted non-subsequences) was repaired in /repo (fix: commit 0e96c3d).",
)
CLAIMED["C03"] = dict(
    text="Bounded (labelled exploration): usreconcile_base_uspfs and usreconcile_extended_uspfs (SuperDTL) are run under ALL and ANY on 2400 (24000) random binary inputs (3-5 object leaves incl. caterpillars, 1-4 species leaves, 2-4 families) "
         "and compared with an independent optimum over every species mapping and EVERY admissible labelling (each family on a connected node set below the LCA of its carriers), which also validates on that scope that the two canonical labellings lose nothing. "
         + _STEP + " for _compute_uspfs_entry (both kinds, lca_sets unmodified). PROVED from the real AST: the unordered labelling cost, the event model and the total cost the results are ranked by (C06 contracts). "
         "The USPFS table contracts themselves are not discharged.",
    note="Trusted: the oracle (standin/srec.py); stated bounds; C06 trusted base for the proved cone. A genuine defect found by this oracle (decoding mutated the shared required-family sets) was repaired in /repo (fix: commit d062ca3).",
)
CLAIMED["C04"] = dict(
    text="Bounded (labelled exploration): every solution returned by thl, exhaustive and the four labelled solvers on the C01-C03 scopes (all cost vectors, segmental-loss cost 0 and incoherent vectors included, both policies) is re-checked against the validity clauses "
         "of the statement with parent-chain ancestry only: total mapping, leaves kept, no invalid event, finite cost, leaf syntenies = input, ordered: child subsequence of parent and root holds every family once, unordered: family only inside the subtree of its gain node "
         "and never below a parent lacking it. PROVED from the real AST: the functions that decide validity - node_event against the documented event model incl. INVALID, _cost_rec / cost (infinite iff an invalid event), "
         "subseq_segment_dist = -1 iff not contained, mask <-> subsequence conversions. The decode contracts are not discharged; lca reconciliation validity is proved under C07; multifurcating inputs under C08.",
    note="Trusted: validity oracle in standin/srec.py and standin/recon.py; stated bounds; C06/C18 trusted base for the proved cone. Two genuine defects found here were repaired (fix: commits 0e96c3d, d062ca3).",
)
CLAIMED["C05"]["text"] = CLAIMED["C05"]["text"].replace("thl and exhaustive against the complete optimal set of a brute-force oracle on the C01 scope.",
    "thl, exhaustive, base_spfs, ext_spfs, base_uspfs and superdtl against the complete optimal set of the brute-force oracles on the C01-C03 scopes, and the tag clauses of the three step-function recurrence contracts evaluated at run time on random tables.")

CLAIMED["C08"] = dict(
    text="Bounded (labelled exploration): (1) utils.trees.binarize is run on EVERY rooted tree shape with arbitrary arities up to 5 (6 thorough) leaves (exhaustive), with and without colour annotations and unnamed nodes, and its output is "
         "compared with an independent enumeration of all binary trees displaying the original clades: binary, clades / names / colours kept, each refinement exactly once, (2k-3)!! per node; (2) ReconciliationInput.binarize + label_internal on random "
         "multifurcating inputs (leaf data, costs, names that look like generated labels); (3) the two extended solvers on multifurcating inputs against the minimum over all independent refinements of the binary-input oracle optimum, and every returned "
         "solution refers to binary trees keeping clades, names, colours and leaf data. Of the cone only Entry.update (the result entry fed by every refinement) is proved; the enumerator code is ete3-bound (copy, topology ids, Newick re-parsing) and outside the verifier's reach.",
    note="Trusted: the independent refinement generator and the C02/C03 oracles (standin/c08.py, standin/srec.py); stated bounds.",
)

CLAIMED["C13"] = dict(
    text="Bounded (labelled exploration): layout.compute and tikz.render are run on 160 (2500 thorough) valid reconciliations drawn from an independent enumerator (random species mappings filtered by the parent-chain event model; "
         "binary inputs <= 5 (10) object leaves, <= 5 species leaves), with and without synteny labels, vertical and horizontal, with a stub TeX measurer returning arbitrary positive sizes in the order of the nodes given. Checked: exactly one event "
         "node per object node, in the species it is mapped to, of the kind of the documented event model; exactly one loss node per full loss the model counts, in the species where the loss occurs, its marker on that species' trunk on the side "
         "of the child species that loses the copy; exactly one arrow per transfer, ending at the anchor of the transferred child; and the same counts in the generated text. PROVED: node_event (where the layout reads the kind from) equals the event model (C06 contract).",
    note="Trusted: the event-model oracle (standin/render.py, standin/srec.py); the regular expressions that read the generated statements; stated bounds. Layout geometry in general is not examined (C14 n/a).",
)
CLAIMED["C15"] = dict(
    text="Bounded (labelled exploration): the TikZ text of the same reconciliations, with random names containing underscores, backslashes and blanks, random nested colour annotations, syntenies up to 12 families and wrap widths 1-30, "
         "is checked clause by clause: balanced braces, a single picture environment whose statements all start with a drawing command and end with ';', every colour defined before the picture, colour scoping (nearest coloured ancestor-or-self, "
         "loss nodes coloured like the lost lineage, nothing else coloured), escaping, synteny labels listing exactly the families in order and omitted only when equal to the parent's, wrapped labels (every word kept, width respected unless a single word, "
         "no more lines than greedy). balanced_wrap is additionally run exhaustively on all word lists <= 4 (5) words over five word lengths x eight widths. Nothing is discharged deductively for this property yet.",
    note="Trusted: the text oracle (standin/render.py); an escaped backslash and the TeX line separator are the same two characters, so labels are matched against the expected text with blanks optionally replaced by the separator. "
         "A genuine defect found here (nested colours) was repaired in /repo (fix: commit 259450a).",
)


CLAIMED["C01"]["text"] = (
    "PROVED from the real AST (unbounded in species tree, table content and cost vector): the Bellman contracts of _compute_thl_try_speciation and "
    "_compute_thl_try_duplication_transfer - after the call the cell (node, species) holds the minimum of its old value and of every placement of the two children priced by the documented event model "
    "(speciation: children below the two different children of the species, one full loss per skipped edge beyond the first; duplication: both below; transfer: one below, one in an incomparable species), "
    "under ALL exactly the optimal placements are retained, under ANY exactly one, and no other cell changes - with loop invariants over the species-tree enumeration, the combinators inlined, "
    "Entry.update / combine / __iter__ and LowestCommonAncestor.distance / is_ancestor_of used through their proved contracts, and ghost cuts recorded in the sidecar. Also proved: Table.entry and the cost evaluator "
    "(node_event, _cost_rec, cost). BOUNDED only (labelled): table fill order, decoding, re-ranking, the exhaustive solver and the enumerator generate_all are compared with an independent enumeration + recount of all "
    "species mappings on all binary object trees <= 3 (4) leaves x species trees <= 3 (4) leaves plus 900 (9000) random inputs up to 5 x 4 leaves (validity, cost = minimum, each valid reconciliation exactly once, no exception), "
    "and the same Bellman contracts are also evaluated at run time on random real tables.")
CLAIMED["C01"]["note"] = (
    "Trusted: pyvc encoding; z3/cvc5; tree axioms; assumed ete3 traverse / children contracts; assumed LowestCommonAncestor core (C17); ASSUMED contracts of Table / TableProxy / EntryProxy over an abstract cell map "
    "(table[k0][k1].m(...) is desugared to Table.cell2_m(table, k0, k1, ...): the proxies are pure views), validated only by the bounded Table-proxies stand-in; info tags of different Python classes modelled as injections into one sort; "
    "table values are never -inf (precondition). The lower-bound theorem from a Bellman-closed table to the minimum over all reconciliations is not proved. Four genuine defects found here were repaired in /repo (fix: commits).")
CLAIMED["C05"]["text"] = CLAIMED["C05"]["text"].replace("Proof at the tag level:", "Proof at the tag level (entries and THL step functions):") + (
    " The tag clauses of the two THL step functions (ALL: exactly the optimal child placements incl. ties that appear only after loss costs are added; ANY: exactly one) are PROVED as part of their Bellman contracts.")

CLAIMED["C03"]["text"] = CLAIMED["C03"]["text"].replace("PROVED from the real AST: the unordered labelling cost",
    "PROVED from the real AST: _compute_lca_sets - the required content of every node is exactly the set of families that occur in a leaf below it and whose gain node is the node itself or one of its ancestors "
    "(post-order loop invariant, set algebra, tree cuts), given gain sets in which each family sits at one node; the unordered labelling cost")

CLAIMED["C15"]["text"] = CLAIMED["C15"]["text"].replace("Nothing is discharged deductively for this property yet.",
    "PROVED from the real AST: balanced_wrap returns '' for an empty text and otherwise the newline-join of textwrap.wrap(text, w, break_long_words=False) for some 1 <= w <= width whose line count equals that of the requested width "
    "(while-loop invariant with a ghost witness, termination measure) - with the ASSUMED library contract of textwrap.wrap this is the wrapped-label clause (every word kept, width respected unless a single word is longer, no more lines than greedy). "
    "All other clauses are bounded only.")

CLAIMED["C01"]["text"] = CLAIMED["C01"]["text"].replace("Also proved: Table.entry and the cost evaluator",
    "PROVED on top of them: _compute_thl_table (nested post-order loops; every leaf cell holds 0 at the leaf's species and nothing elsewhere, every internal cell is lower-closed: no placement of the two children priced by the event model "
    "over the children's cells is cheaper than the cell) and the L2 lemma lemma_thl_lower_bound (structural induction over the object tree, one case per event kind, symbolic costs): in a lower-closed table the cost the evaluator assigns to ANY total "
    "species mapping of a subtree is at least the table value at the root's species - i.e. no valid reconciliation is cheaper than what the table says. Also proved: Table.entry and the cost evaluator")
CLAIMED["C01"]["text"] = CLAIMED["C01"]["text"].replace("BOUNDED only (labelled): table fill order, decoding, re-ranking,", "BOUNDED only (labelled): decoding (the table value is attained by a returned reconciliation), re-ranking,")
CLAIMED["C01"]["note"] = CLAIMED["C01"]["note"].replace("The lower-bound theorem from a Bellman-closed table to the minimum over all reconciliations is not proved.", "Lemma recursion is structural (on the two children), its termination is not checked; Table.__init__ is an assumed contract (a new table has no cell).")

CLAIMED["C02"]["text"] = CLAIMED["C02"]["text"].replace("PROVED from the real AST: the callees the recurrence rests on",
    "PROVED from the real AST: _make_prec_graph - the vertices of the precedence graph are exactly the families occurring in some leaf and there is an edge a -> b exactly when a and b are consecutive in some leaf synteny "
    "(nested loops over the mapping's values and over zip(s[0:-1], s[1:]), invariants over an arbitrary enumeration of the leaves); and the callees the recurrence rests on")

CLAIMED["C03"]["text"] = CLAIMED["C03"]["text"].replace("PROVED from the real AST: _compute_lca_sets",
    "PROVED from the real AST: _compute_gain_sets - every family that occurs in a leaf is gained at exactly one node, the deepest common ancestor of the leaves carrying it, and nothing else is gained "
    "(three loops over arbitrary enumerations of a dict / a defaultdict of sets, the LCA query through its assumed C17 contract); _compute_lca_sets")

CLAIMED["C15"]["text"] = CLAIMED["C15"]["text"].replace("All other clauses are bounded only.",
    "Also proved: format_synteny on an ordered synteny returns the families in order joined by ', ' and, when a width is given, balanced_wrap of that text. All other clauses are bounded only.")

_KF = " One recorded, unrepaired finding (F-COHERENCE, outside the coherent cost region) is replayed on every run from a listed witness input and printed as a KNOWN-FINDING line; it suppresses nothing else."
for _p in ("C01", "C02", "C03", "C05"):
    CLAIMED[_p]["note"] += _KF
CLAIMED["C04"]["text"] = CLAIMED["C04"]["text"].replace("The decode contracts are not discharged;",
    "Also proved: _compute_gain_sets / _compute_lca_sets (the sets from which the unordered decoder builds every content: gained at the LCA of the carriers, required below it). The decode contracts are not discharged;")

_EXH = (" reconcile_exhaustive is PROVED from the real AST relative to an ASSUMED enumerator: for every sequence generate_all yields and every retention policy the returned set contains only "
        "enumerated outputs of minimum evaluator cost, under ALL every one of them, under ANY exactly one if any, under NONE none (loop invariant over the Entry.update contract; outputs are opaque "
        "values with a cost, injected into the tag sort). WHICH reconciliations generate_all enumerates stays bounded.")
CLAIMED["C01"]["text"] = CLAIMED["C01"]["text"].replace("the exhaustive solver and the enumerator generate_all are compared", "the enumerator generate_all (and the solvers end to end) are compared") + _EXH
CLAIMED["C05"]["text"] += _EXH
