"""Bounded stand-ins for C08: the refinement enumerator, ReconciliationInput.binarize / label_internal, and the extended
solvers on multifurcating inputs, against an independent refinement generator (all binary trees displaying the original clades)."""
import itertools

from pyvc import native
from pyvc.driver import Standin
from . import recon, srec

TR = "superrec2.utils.trees"
MR = "superrec2.model.reconciliation"
DP = "superrec2.utils.dynamic_programming"
INF = float("inf")


# ------------------------------------------------------------------ shapes with arbitrary arities
def multi_shapes(n, maxar=6):
    """All rooted ordered trees with n leaves whose internal nodes have >= 2 children (a leaf is ())."""
    if n == 1:
        return [()]
    out = []

    def comps(m, parts):
        if parts == 1:
            yield (m,)
            return
        for first in range(1, m - parts + 2):
            for rest in comps(m - first, parts - 1):
                yield (first,) + rest

    for k in range(2, min(n, maxar) + 1):
        for comp in comps(n, k):
            for kids in itertools.product(*[multi_shapes(c, maxar) for c in comp]):
                out.append(tuple(kids))
    return out


def dfact(k):
    """(2k-3)!! = number of rooted binary trees on k labelled leaves"""
    r = 1
    for i in range(3, 2 * k - 2, 2):
        r *= i
    return r


def expected_count(shape):
    if not shape:
        return 1
    r = dfact(len(shape))
    for c in shape:
        r *= expected_count(c)
    return r


def build(shape, prefix, colors=(), blank=()):
    """ete3 tree; leaves named <prefix>L<i>, internal nodes <prefix>N<i> (preorder index over all nodes);
    colors: {node index: colour}; blank: indices of internal nodes left unnamed."""
    from ete3 import Tree

    nodes = []
    colors = {int(k): v for k, v in dict(colors).items()}

    def go(sh):
        t = Tree()
        i = len(nodes)
        nodes.append(t)
        t.name = f"{prefix}{'N' if sh else 'L'}{i}"
        if sh and i in blank:
            t.name = ""
        if i in colors:
            t.add_feature("color", colors[i])
        for c in sh:
            t.add_child(go(c))
        return t

    return go(recon.tup(shape)), nodes


def leafset(n):
    return frozenset(l.name for l in n.get_leaves())


def clades(t):
    return frozenset(leafset(n) for n in t.traverse())


def is_bin(t):
    return all(len(n.children) in (0, 2) for n in t.traverse())


def refinements(t):
    """independent generator: clade sets of all binary trees on the leaves of t that display every clade of t"""
    orig = clades(t)

    def all_bin(leaves):
        leaves = sorted(leaves)
        if len(leaves) == 1:
            return [frozenset([frozenset(leaves)])]
        out = []
        first, rest = leaves[0], leaves[1:]
        for r in range(0, len(rest)):
            for comb in itertools.combinations(rest, r):
                a = frozenset([first, *comb])
                b = frozenset(rest) - a
                # prune: each side must be compatible with the original clades (nested or disjoint)
                if any(not (a <= c or c <= a or not (a & c)) for c in orig):
                    continue
                if any(not (b <= c or c <= b or not (b & c)) for c in orig):
                    continue
                for ta in all_bin(a):
                    for tb in all_bin(b):
                        out.append(ta | tb | {frozenset(leaves)})
        return out

    return {cs for cs in all_bin(leafset(t)) if orig <= cs}


def check_attrs(orig_nodes, res_tree, what):
    """names, clades and colours of the original nodes are kept; nothing else is coloured"""
    by_name = {}
    for n in res_tree.traverse():
        by_name.setdefault(n.name, []).append(n)
    coloured_expected = 0
    for o in orig_nodes:
        if not o.name:
            continue
        hits = by_name.get(o.name, [])
        if len(hits) != 1:
            return f"{what}: {len(hits)} nodes carry the original name {o.name!r}"
        if leafset(hits[0]) != leafset(o):
            return f"{what}: node {o.name!r} no longer designates its clade ({sorted(leafset(o))} became {sorted(leafset(hits[0]))})"
        if getattr(hits[0], "color", None) != getattr(o, "color", None):
            return f"{what}: colour of {o.name!r} changed from {getattr(o, 'color', None)!r} to {getattr(hits[0], 'color', None)!r}"
    want = sorted(getattr(o, "color") for o in orig_nodes if hasattr(o, "color"))
    got = sorted(n.color for n in res_tree.traverse() if hasattr(n, "color"))
    if want != got:
        return f"{what}: colours in the refinement {got} differ from the original ones {want}"
    return None


# ------------------------------------------------------------------ 1. the enumerator
def check_enumerator(recipe, src_root):
    tr = native.import_real(TR, src_root)
    tree, nodes = build(recipe["shape"], "", recipe.get("colors", {}), recipe.get("blank", ()))
    orig_clades = clades(tree)
    try:
        res = list(tr.binarize(tree))
    except Exception as e:
        return f"binarize raised {type(e).__name__}: {e}"
    want = expected_count(recon.tup(recipe["shape"]))
    cs = []
    for r in res:
        if not is_bin(r):
            return "binarize returned a tree that is not binary"
        c = clades(r)
        if not orig_clades <= c:
            return f"binarize returned a tree that breaks the original clade {sorted(min(orig_clades - c, key=len))}"
        cs.append(c)
        w = check_attrs(nodes, r, "binarize")
        if w:
            return w
    if len(set(cs)) != len(cs):
        return f"binarize returned a refinement twice ({len(cs)} trees, {len(set(cs))} distinct)"
    if len(cs) != want:
        return f"binarize returned {len(cs)} refinements, product of (2k-3)!! is {want}"
    if len(leafset(tree)) <= 6 and set(cs) != refinements(tree):
        return "binarize result differs from the independent set of binary refinements"
    if clades(tree) != orig_clades:
        return "binarize modified its argument"
    return None


def gen_enumerator(tier, rng):
    top = 5 if tier != "thorough" else 6
    for n in range(1, top + 1):
        for sh in multi_shapes(n):
            yield {"shape": sh}
            nn = sum(1 for _ in srec._nodes(sh))
            if n >= 3:
                internal = [i for i, s in enumerate(srec._nodes(sh)) if s]
                yield {"shape": sh, "colors": {str(rng.choice(internal)): "ff0000", str(rng.randrange(nn)): "00ff00"}, "blank": [rng.choice(internal)]}


# ------------------------------------------------------------------ 2. ReconciliationInput.binarize / label_internal
def make_multi_input(src_root, recipe):
    mr = native.import_real(MR, src_root)
    tr = native.import_real(TR, src_root)
    otree, onodes = build(recipe["obj"], "o", recipe.get("ocolors", {}), recipe.get("oblank", ()))
    stree, snodes = build(recipe["sp"], "s", recipe.get("scolors", {}), recipe.get("sblank", ()))
    if recipe.get("snames"):
        for i, nm in recipe["snames"].items():
            snodes[int(i)].name = nm
    if recipe.get("onames"):
        for i, nm in recipe["onames"].items():
            onodes[int(i)].name = nm
    oleaves = [n for n in onodes if n.is_leaf()]
    sleaves = [n for n in snodes if n.is_leaf()]
    leafmap = {l: sleaves[i % len(sleaves)] for l, i in zip(oleaves, recipe["leafmap"])}
    kw = dict(object_tree=otree, species_lca=tr.LowestCommonAncestor(stree), leaf_object_species=leafmap, costs=recon.cost_dict(mr, recipe["costs"]))
    if "leaf_syn" in recipe:
        kw["leaf_syntenies"] = {l: list(s) for l, s in zip(oleaves, recipe["leaf_syn"])}
        return mr.SuperReconciliationInput(**kw), onodes, snodes
    return mr.ReconciliationInput(**kw), onodes, snodes


def check_refined_input(inp, onodes, snodes, got, what):
    """one yielded (or solution-carried) input against the original"""
    for t, orig, nm in ((got.object_tree, onodes, "object"), (got.species_lca.tree, snodes, "species")):
        if not is_bin(t):
            return f"{what}: {nm} tree is not binary"
        if not clades(orig[0]) <= clades(t):
            return f"{what}: {nm} tree lost an original clade"
        w = check_attrs(orig, t, f"{what} ({nm} tree)")
        if w:
            return w
    a = {l.name: s.name for l, s in inp.leaf_object_species.items()}
    b = {l.name: s.name for l, s in got.leaf_object_species.items()}
    if a != b:
        return f"{what}: leaf assignment changed"
    for l, s in got.leaf_object_species.items():
        if l.get_tree_root() is not got.object_tree or s.get_tree_root() is not got.species_lca.tree:
            return f"{what}: leaf assignment refers to nodes of another tree"
    if hasattr(inp, "leaf_syntenies"):
        a = {l.name: list(s) for l, s in inp.leaf_syntenies.items()}
        b = {l.name: list(s) for l, s in got.leaf_syntenies.items()}
        if a != b:
            return f"{what}: leaf syntenies changed"
    if dict(inp.costs) != dict(got.costs):
        return f"{what}: costs changed"
    return None


def check_input_binarize(recipe, src_root):
    inp, onodes, snodes = make_multi_input(src_root, recipe)
    try:
        outs = list(inp.binarize())
    except Exception as e:
        return f"ReconciliationInput.binarize raised {type(e).__name__}: {e}"
    want = expected_count(recon.tup(recipe["obj"])) * expected_count(recon.tup(recipe["sp"]))
    if len(outs) != want:
        return f"ReconciliationInput.binarize yielded {len(outs)} inputs, expected {want}"
    keys = set()
    binary_in = is_bin(onodes[0]) and is_bin(snodes[0])
    for o in outs:
        if binary_in and o is not inp:
            return "a binary input must be yielded unchanged"
        w = check_refined_input(inp, onodes, snodes, o, "ReconciliationInput.binarize")
        if w:
            return w
        keys.add((clades(o.object_tree), clades(o.species_lca.tree)))
        # label_internal: every node named, names unique, original names still designate their clade
        try:
            o.label_internal()
        except Exception as e:
            return f"label_internal raised {type(e).__name__}: {e}"
        for t, orig, nm in ((o.object_tree, onodes, "object"), (o.species_lca.tree, snodes, "species")):
            names = [n.name for n in t.traverse()]
            if any(not x for x in names):
                return f"label_internal left a {nm} node unnamed"
            if len(set(names)) != len(names):
                return f"label_internal produced duplicate {nm} node names {sorted(x for x in set(names) if names.count(x) > 1)}"
            w = check_attrs(orig, t, f"label_internal ({nm} tree)")
            if w:
                return w
    if len(keys) != len(outs):
        return "ReconciliationInput.binarize yielded the same pair of refinements twice"
    return None


def gen_input_binarize(tier, rng):
    n = 60 if tier != "thorough" else 600
    for i in range(n):
        on = rng.choice([2, 3, 4, 4, 5])
        sn = rng.choice([2, 3, 3, 4])
        osh = rng.choice(multi_shapes(on, 4))
        ssh = rng.choice(multi_shapes(sn, 4))
        if expected_count(osh) * expected_count(ssh) > 250:
            continue
        r = {"obj": osh, "sp": ssh, "leafmap": [rng.randrange(sn) for _ in range(on)], "costs": [0, 1, 1, 1, 1]}
        oint = [k for k, s in enumerate(srec._nodes(osh)) if s]
        sint = [k for k, s in enumerate(srec._nodes(ssh)) if s]
        if i % 2:
            r["ocolors"] = {str(rng.choice(oint)): "aa0000"}
            r["scolors"] = {str(rng.choice(sint)): "0000aa"}
        if i % 3 == 0:
            r["oblank"] = [rng.choice(oint)]
            r["sblank"] = [rng.choice(sint)]
        if i % 4 == 0:
            # names that look like the generated labels
            sl = [k for k, s in enumerate(srec._nodes(ssh)) if not s]
            r["snames"] = {str(k): f"S{j}" for j, k in enumerate(sl)}
            ol = [k for k, s in enumerate(srec._nodes(osh)) if not s]
            r["onames"] = {str(k): f"O{j}" for j, k in enumerate(ol)}
            r["oblank"] = oint
            r["sblank"] = sint
        if i % 5 == 0:
            r["leaf_syn"] = [[rng.choice("ab")] for _ in range(on)]
        yield r


# ------------------------------------------------------------------ 3. extended solvers on multifurcating inputs
def tree_to_shape(t, order):
    """nested shape of an ete3 binary tree and its leaves in preorder (by original leaf index)"""
    if t.is_leaf():
        return (), [order[t.name]]
    shs, ls = [], []
    for c in t.children:
        s, l = tree_to_shape(c, order)
        shs.append(s)
        ls += l
    return tuple(shs), ls


def binary_trees_displaying(root):
    """independent refinement generator producing ete3-free nested tuples of leaf names"""
    def all_bin(leaves):
        leaves = sorted(leaves)
        if len(leaves) == 1:
            return [leaves[0]]
        out = []
        first, rest = leaves[0], leaves[1:]
        for r in range(0, len(rest)):
            for comb in itertools.combinations(rest, r):
                a = [first, *comb]
                b = [x for x in rest if x not in comb]
                for ta in all_bin(a):
                    for tb in all_bin(b):
                        out.append((ta, tb))
        return out

    def cl(t):
        if isinstance(t, str):
            return {frozenset([t])}
        l = frozenset(flat(t))
        return {l} | cl(t[0]) | cl(t[1])

    def flat(t):
        return [t] if isinstance(t, str) else flat(t[0]) + flat(t[1])

    orig = clades(root)
    return [t for t in all_bin(leafset(root)) if orig <= cl(t)]


def nested_shape(t, order):
    if isinstance(t, str):
        return (), [order[t]]
    a, la = nested_shape(t[0], order)
    b, lb = nested_shape(t[1], order)
    return (a, b), la + lb


def check_solver(recipe, src_root):
    import contextlib
    import io

    dp = native.import_real(DP, src_root)
    algo = recipe["algo"]
    modname, fname, ordered, base = srec.ALGOS[algo]
    mod = native.import_real(modname, src_root)
    inp, onodes, snodes = make_multi_input(src_root, recipe)
    oleaves = [n for n in onodes if n.is_leaf()]
    sleaves = [n for n in snodes if n.is_leaf()]
    # oracle: minimum over every pair of independent refinements of the binary-input optimum
    oorder = {l.name: i for i, l in enumerate(oleaves)}
    sorder = {l.name: i for i, l in enumerate(sleaves)}
    best = None
    n_opt = 0
    for ot in binary_trees_displaying(onodes[0]):
        osh, ols = nested_shape(ot, oorder)
        for st in binary_trees_displaying(snodes[0]):
            ssh, sls = nested_shape(st, sorder)
            # species-leaf index -> preorder index of that leaf in the refined species shape
            pre = [k for k, s in enumerate(srec._nodes(ssh)) if not s]
            where = {orig: pre[pos] for pos, orig in enumerate(sls)}
            sub = {"obj": osh, "sp": ssh, "costs": recipe["costs"],
                   "leafmap": [where[recipe["leafmap"][i] % len(sleaves)] for i in ols],
                   "leaf_syn": [recipe["leaf_syn"][i] for i in ols]}
            P = srec.Problem(src_root, sub)
            if ordered:
                b, opt = srec.ordered_optimum(P, base)
            else:
                b, opt = srec.unordered_optimum(P, base, srec.canonical_labellings(P, srec.family_choices(P)))
            if b is not None and (best is None or b < best):
                best, n_opt = b, 0
            if b is not None and b == best:
                n_opt += len(opt)  # optimal solutions on different refinements are different solutions
    for pol in ("ALL", "ANY"):
        try:
            with contextlib.redirect_stderr(io.StringIO()):
                outs = list(getattr(mod, fname)(inp, getattr(dp.RetentionPolicy, pol)))
        except Exception as e:
            return f"{algo}/{pol} on a multifurcating input raised {type(e).__name__}: {e}"
        if best is None:
            if outs:
                return f"{algo}/{pol}: returned solutions although no refinement has a valid solution"
            continue
        if not outs:
            return f"{algo}/{pol}: returned nothing; the optimum over all binary refinements is {best}"
        for o in outs:
            w = check_refined_input(inp, onodes, snodes, o.input, f"{algo}/{pol} solution")
            if w:
                return w
            if set(o.object_species) != set(o.input.object_tree.traverse()):
                return f"{algo}/{pol}: solution does not map exactly the nodes of its (refined) object tree"
            c = o.cost()
            if srec.coherent(recipe["costs"]) and c != best:
                return f"{algo}/{pol}: returned cost {c}; the optimum over all binary refinements of both trees is {best}"
        if srec.coherent(recipe["costs"]) and pol == "ALL" and len(outs) != n_opt:
            return f"{algo}/ALL: returned {len(outs)} solutions; the refinements of both trees have {n_opt} minimum-cost solutions in total"
        if srec.coherent(recipe["costs"]) and pol == "ANY" and len(outs) != 1:
            return f"{algo}/ANY: returned {len(outs)} solutions"
    return None


def gen_solver(tier, rng):
    n = 40 if tier != "thorough" else 400
    made = 0
    while made < n:
        on = rng.choice([3, 3, 4])
        sn = rng.choice([2, 3, 3, 4])
        osh = rng.choice(multi_shapes(on, 4))
        ssh = rng.choice(multi_shapes(sn, 3))
        cnt = expected_count(osh) * expected_count(ssh)
        if cnt == 1 or cnt > 45:
            continue
        made += 1
        ordered = made % 2 == 0
        fams = "abc"[: rng.choice([1, 2, 3])]
        if ordered:
            hidden = list(fams)
            rng.shuffle(hidden)
            leaf_syn = [[hidden[j] for j in sorted(rng.sample(range(len(fams)), rng.randrange(1, len(fams) + 1)))] for _ in range(on)]
        else:
            leaf_syn = [sorted(rng.sample(fams, rng.randrange(1, len(fams) + 1))) for _ in range(on)]
        r = {"obj": osh, "sp": ssh, "leafmap": [rng.randrange(sn) for _ in range(on)], "leaf_syn": leaf_syn,
             "costs": rng.choice(srec.COSTS), "algo": "ext_spfs" if ordered else "superdtl"}
        oint = [k for k, s in enumerate(srec._nodes(osh)) if s]
        sint = [k for k, s in enumerate(srec._nodes(ssh)) if s]
        if made % 3 == 0:
            r["ocolors"] = {str(rng.choice(oint)): "aa0000"}
            r["scolors"] = {str(rng.choice(sint)): "0000aa"}
        yield r


PARTS = {"enumerator": (check_enumerator, gen_enumerator), "input": (check_input_binarize, gen_input_binarize), "solver": (check_solver, gen_solver)}


def _work(args):
    which, r, src_root = args
    try:
        return PARTS[which][0](r, src_root)
    except Exception:
        import traceback

        return "HARNESS-FAULT " + traceback.format_exc()


def standin(name, which, describe, rule):
    fn, gen = PARTS[which]

    def run(tier, rng, src_root):
        import multiprocessing as mp
        import os

        recipes = list(gen(tier, rng))
        viol, evals = [], 0
        with mp.get_context("fork").Pool(min(16, os.cpu_count() or 4)) as pool:
            for r, w in zip(recipes, pool.imap(_work, [(which, r, src_root) for r in recipes], chunksize=4)):
                evals += 1
                if w:
                    if w.startswith("HARNESS-FAULT"):
                        raise RuntimeError(w)
                    viol.append((w, r))
                    if len(viol) >= 2:
                        pool.terminate()
                        break
        return dict(evaluations=evals, distinct_nontrivial=len({repr(r) for r in recipes[:evals]}), violations=viol, samples=recipes[-2:], rule=rule,
                    exhaustive=(which == "enumerator"))

    sd = Standin(name, run, describe=describe)
    sd.replay = lambda recipe, src_root: fn(recipe, src_root)
    return sd
