"""Bounded stand-ins for C13 (diagram shows exactly the counted events) and C15 (TikZ well-formed, labels faithful).

layout.compute and tikz.render are run on valid reconciliations taken from an independent enumerator (random species mappings
filtered by the parent-chain event model), with and without synteny labels, in both orientations, with a stub TeX measurer that
returns arbitrary positive sizes in the order of the nodes it is given.  Every check is stated from the property text."""
import itertools
import re

from pyvc import native
from pyvc.driver import Standin
from . import recon, srec

MR = "superrec2.model.reconciliation"
LAYOUT = "superrec2.render.layout"
TIKZ = "superrec2.render.tikz"
RMODEL = "superrec2.render.model"
TEX = "superrec2.utils.tex"
TEXT = "superrec2.utils.text"
SYN = "superrec2.model.synteny"
INF = float("inf")


def esc(s):
    return "".join({"\\": "\\\\", "_": "\\_"}.get(ch, ch) for ch in s)


def greedy_lines(words, width):
    """greedy wrapping of words (never breaking a word)"""
    lines, cur = [], ""
    for w in words:
        if not cur:
            cur = w
        elif len(cur) + 1 + len(w) <= width:
            cur += " " + w
        else:
            lines.append(cur)
            cur = w
    if cur:
        lines.append(cur)
    return lines


def check_wrapped(wrapped_lines, words, width, what):
    if " ".join(wrapped_lines).split() != list(words):
        return f"{what}: words changed by wrapping ({wrapped_lines!r} from {list(words)!r})"
    for ln in wrapped_lines:
        if len(ln) > width and " " in ln.strip():
            return f"{what}: line {ln!r} exceeds the width {width} although it holds several words"
        if ln != ln.strip():
            return f"{what}: line {ln!r} has surrounding blanks"
    if len(wrapped_lines) > len(greedy_lines(words, width)):
        return f"{what}: {len(wrapped_lines)} lines, greedy wrapping needs {len(greedy_lines(words, width))}"
    return None


def unwrap(label, expected, sep="\\\\"):
    """`label` must be `expected` with some of its blanks replaced by the TeX line separator; returns the lines, or None.
    (An escaped backslash of a name is written with the same two characters as the separator, so the label cannot simply be split.)"""
    lines, cur, i = [], "", 0
    for ch in expected:
        if ch == " " and label.startswith(sep, i):
            lines.append(cur)
            cur = ""
            i += len(sep)
        elif label.startswith(ch, i):
            cur += ch
            i += 1
        else:
            return None
    if i != len(label):
        return None
    return lines + [cur]


# ------------------------------------------------------------------ building a (super-)reconciliation from a recipe
NAME_VARIANTS = ["x", "sp_a", "a\\b", "g_1\\x", "n", "long_name_1"]


def make_rec(src_root, recipe):
    mr = native.import_real(MR, src_root)
    trees = native.import_real("superrec2.utils.trees", src_root)
    oroot, onodes = recon.make_tree(recon.tup(recipe["obj"]), "o")
    sroot, snodes = recon.make_tree(recon.tup(recipe["sp"]), "s")
    for i, n in enumerate(onodes):
        nm = recipe.get("onames", {}).get(str(i))
        if nm is not None:
            n.name = nm
        elif n.is_leaf():
            n.name = f"o_{i}"
    for i, n in enumerate(snodes):
        nm = recipe.get("snames", {}).get(str(i))
        if nm is not None:
            n.name = nm
    for i, c in recipe.get("colors", {}).items():
        onodes[int(i)].add_feature("color", c)
    oleaves = [n for n in onodes if n.is_leaf()]
    internal = [n for n in onodes if not n.is_leaf()]
    leafmap = {l: snodes[i] for l, i in zip(oleaves, recipe["leafmap"])}
    rec = dict(leafmap)
    rec.update({u: snodes[i] for u, i in zip(internal, recipe["mapping"])})
    kw = dict(object_tree=oroot, species_lca=trees.LowestCommonAncestor(sroot), leaf_object_species=leafmap,
              costs=recon.cost_dict(mr, [1, 1, 1, 1, 1]))
    if recipe.get("syn") is not None:
        syn = {n: list(s) for n, s in zip(onodes, recipe["syn"])}
        inp = mr.SuperReconciliationInput(leaf_syntenies={l: syn[l] for l in oleaves}, **kw)
        out = mr.SuperReconciliationOutput(input=inp, object_species=rec, syntenies=syn, ordered=recipe.get("ordered", True))
    else:
        inp = mr.ReconciliationInput(**kw)
        out = mr.ReconciliationOutput(inp, rec)
    return out, onodes, snodes, leafmap, rec


def stub_size(seed, text):
    import random

    r = random.Random(f"{seed}:{text}")
    return (r.choice([3.0, 7.5, 12.25, 20.0]), r.choice([2.0, 5.5, 9.0]), r.choice([0.0, 1.5]))


def stub_measure(tex_mod, seed, log=None):
    def measure(texts, preamble=""):
        texts = list(texts)
        out = []
        for t in texts:
            w, h, d = stub_size(seed, t)
            out.append(tex_mod.MeasureBox(width=w, height=h, depth=d))
        if log is not None:
            log.append(texts)
        return out

    return measure


def run_render(src_root, recipe):
    """(out, onodes, snodes, leafmap, rec, layout, text, params)"""
    layout_mod = native.import_real(LAYOUT, src_root)
    tikz = native.import_real(TIKZ, src_root)
    rmodel = native.import_real(RMODEL, src_root)
    tex = native.import_real(TEX, src_root)
    out, onodes, snodes, leafmap, rec = make_rec(src_root, recipe)
    params = rmodel.DrawParams(orientation=getattr(rmodel.Orientation, recipe.get("orientation", "VERTICAL")),
                               event_label_width=recipe.get("label_width", 18), species_label_width=recipe.get("species_label_width", 21))
    saved = tex.measure
    log = []
    tex.measure = stub_measure(tex, recipe.get("sizes_seed", 0), log)
    try:
        lay = layout_mod.compute(out, params)
        text = tikz.render(out, lay, params)
    finally:
        tex.measure = saved
    params = params._replace()  # (same object; the measured texts are attached to the layout for the size check)
    run_render.last_measured = log
    return out, onodes, snodes, leafmap, rec, lay, text, params


def expected_events(onodes, leafmap, rec):
    """per object node: kind; per species: number of full losses; transfers: node -> transferred child; loss colour owner"""
    kinds, transfers = {}, {}
    losses = []  # (species, child whose lineage is lost there)
    for u in onodes:
        if u.is_leaf():
            kinds[u] = "LEAF"
            continue
        l, r = u.children
        ev = srec.event_of_species(rec[u], rec[l], rec[r])
        if ev == "spe":
            kinds[u] = "SPECIATION"
            for c in (l, r):
                s = rec[c].up
                while s is not rec[u]:
                    losses.append((s, c))
                    s = s.up
        elif ev == "dup":
            kinds[u] = "DUPLICATION"
            for c in (l, r):
                s = rec[c]
                while s is not rec[u]:
                    s = s.up
                    losses.append((s, c))
        else:
            kinds[u] = "HORIZONTAL_TRANSFER"
            kept, moved = (l, r) if ev == "hgt-left-kept" else (r, l)
            transfers[u] = moved
            s = rec[kept]
            while s is not rec[u]:
                s = s.up
                losses.append((s, kept))
    return kinds, losses, transfers


def expected_colors(onodes):
    col = {}
    for u in onodes:  # preorder: parents first
        if hasattr(u, "_orig_color"):
            col[u] = u._orig_color
        elif u.up is not None:
            col[u] = col[u.up]
        else:
            col[u] = None
    return col


NODE_RE = re.compile(r"\\node\[(extant gene|loss|speciation|duplication|horizontal gene transfer)=\{([^}]*)\}(?:\{((?:[^{}]|\{[^{}]*\})*)\})?\] at \(([-0-9.e]+),([-0-9.e]+)\) \{((?:[^{}]|\{[^{}]*\})*)\};")
ARROW_RE = re.compile(r"\\path\[transfer branch=\{([^}]*)\}\] \(([-0-9.e]+),([-0-9.e]+)\) to\[[^\]]*\] \(([-0-9.e]+),([-0-9.e]+)\);")


def close(a, b):
    return abs(a - b) < 2e-4


# ------------------------------------------------------------------ C13
def check_c13(recipe, src_root):
    try:
        out, onodes, snodes, leafmap, rec, lay, text, params = run_render(src_root, recipe)
    except Exception as e:
        return f"layout.compute / tikz.render raised {type(e).__name__}: {e} on a valid reconciliation"
    kinds, losses, transfers = expected_events(onodes, leafmap, rec)
    vertical = recipe.get("orientation", "VERTICAL") == "VERTICAL"
    oset = set(onodes)
    # (a) one event node per object node, in its species, of the evaluator's kind
    for u in onodes:
        where = [s for s in snodes if u in lay[s].branches]
        if len(where) != 1:
            return f"object node {u.name} has {len(where)} event nodes in the layout"
        if where[0] is not rec[u]:
            return f"event node of {u.name} is placed in species {where[0].name}, it is mapped to {rec[u].name}"
        k = lay[rec[u]].branches[u].kind.name
        if k != kinds[u]:
            return f"event node of {u.name} is a {k}, the evaluator's model says {kinds[u]}"
    # sizes: the layout must give every event node the size the measurer returned for that node's own box (answers come in
    # the order of the nodes given); checked for the nodes whose (kind, label) is unique so that the box text identifies them
    measured = [t for batch in getattr(run_render, "last_measured", []) for t in batch]
    seed = recipe.get("sizes_seed", 0)
    labels = {}
    for s in snodes:
        for a, b in lay[s].branches.items():
            labels.setdefault((b.kind.name, b.name), []).append(b)
    for (kind, name), bs in labels.items():
        if len(bs) != 1 or kind == "FULL_LOSS":
            continue
        mine = [t for t in measured if ("{" + name + "}") in t and {"LEAF": "extant gene", "SPECIATION": "[speciation]", "DUPLICATION": "[duplication]",
                                                                  "HORIZONTAL_TRANSFER": "[horizontal gene transfer]"}[kind] in t]
        if len(set(mine)) != 1:
            continue
        w, h, d = stub_size(seed, mine[0])
        r = bs[0].rect
        if not (close(r.w, w) and close(r.h, h + d)):
            return f"event node {name!r} ({kind}) has size {r.w}x{r.h} in the layout; the measurer returned {w}x{h + d} for its box (sizes must be used in the order of the nodes given)"
    # (b) one loss marker per counted full loss, in the species where it occurs
    for s in snodes:
        got = [(a, b) for a, b in lay[s].branches.items() if a not in oset]
        want = sum(1 for sp, _ in losses if sp is s)
        if len(got) != want:
            return f"species {s.name} holds {len(got)} loss nodes in the layout, the evaluator counts {want} full losses there"
        for a, b in got:
            if b.kind.name != "FULL_LOSS":
                return f"a pseudo-gene in {s.name} has kind {b.kind.name}"
            if (b.left is None) == (b.right is None):
                return f"a loss node in {s.name} does not have exactly one surviving side"
    # (c) transfers: the arrow ends at the transferred child
    for u, moved in transfers.items():
        b = lay[rec[u]].branches[u]
        if b.right is not moved:
            return f"transfer node {u.name}: the layout records {getattr(b.right, 'name', b.right)!r} as the transferred child, it is {moved.name}"
    # (d) the drawing
    nodes = NODE_RE.findall(text)
    counts = {}
    for kind, *_ in nodes:
        counts[kind] = counts.get(kind, 0) + 1
    want_counts = {"extant gene": sum(1 for k in kinds.values() if k == "LEAF"), "speciation": sum(1 for k in kinds.values() if k == "SPECIATION"),
                   "duplication": sum(1 for k in kinds.values() if k == "DUPLICATION"), "horizontal gene transfer": len(transfers), "loss": len(losses)}
    for k, v in want_counts.items():
        if counts.get(k, 0) != v:
            return f"the drawing contains {counts.get(k, 0)} '{k}' nodes, expected {v}"
    if text.count("\\node[") != sum(want_counts.values()) + text.count("\\node[species label]"):
        return "the drawing contains event nodes of an unknown kind"
    arrows = ARROW_RE.findall(text)
    if len(arrows) != len(transfers):
        return f"the drawing contains {len(arrows)} transfer arrows, expected {len(transfers)}"
    ends = sorted((round(float(a[3]), 3), round(float(a[4]), 3)) for a in arrows)
    want_ends = sorted((round(lay[rec[m]].anchors[m].x, 3), round(lay[rec[m]].anchors[m].y, 3)) for m in transfers.values())
    if any(not (close(a[0], b[0]) and close(a[1], b[1])) for a, b in zip(ends, want_ends)):
        return f"transfer arrows end at {ends}, the transferred children are anchored at {want_ends}"
    # loss markers: on the trunk of the species where the loss occurs, on the side opposite to the surviving copy
    marks = [(float(x), float(y)) for kind, _c, _n, x, y, _t in nodes if kind == "loss"]
    used = set()
    for s in snodes:
        if s.is_leaf():
            continue
        trunk = lay[s].trunk
        for a, b in lay[s].branches.items():
            if a in oset:
                continue
            c = b.rect.center()
            keep = (lay[s.children[0]].anchors[b.left] if b.right is None else lay[s.children[1]].anchors[b.right])
            hit = None
            for i, (x, y) in enumerate(marks):
                if i in used:
                    continue
                if vertical and close(y, c.y) and (close(x, trunk.x) or close(x, trunk.x + trunk.w)):
                    hit = i
                if not vertical and close(x, c.x) and (close(y, trunk.y) or close(y, trunk.y + trunk.h)):
                    hit = i
                if hit is not None:
                    break
            if hit is None:
                return f"no loss marker is drawn on the trunk of species {s.name} for one of its full losses"
            used.add(hit)
            mx, my = marks[hit]
            # the marker must sit on the trunk edge facing the child species that LOSES the copy: compare the two child subtrees
            kept_sp, lost_sp = (s.children[0], s.children[1]) if b.right is None else (s.children[1], s.children[0])
            kc, lc = lay[kept_sp].rect.center(), lay[lost_sp].rect.center()
            kept_low = (kc.x < lc.x) if vertical else (kc.y < lc.y)
            lo, hi = (trunk.x, trunk.x + trunk.w) if vertical else (trunk.y, trunk.y + trunk.h)
            m = mx if vertical else my
            if close(m, lo if kept_low else hi) and not close(lo, hi):
                return f"loss marker in species {s.name} is drawn on the side of the child species that keeps the copy"
    return None


# ------------------------------------------------------------------ C15
def check_c15(recipe, src_root):
    if recipe.get("wrap") is not None:
        return check_wrap(recipe, src_root)
    try:
        out, onodes, snodes, leafmap, rec, lay, text, params = run_render(src_root, dict(recipe, _keep_colors=True))
    except Exception as e:
        return f"layout.compute / tikz.render raised {type(e).__name__}: {e} on a valid reconciliation"
    oset = set(onodes)
    kinds, losses, transfers = expected_events(onodes, leafmap, rec)
    # (a) braces
    depth = 0
    i = 0
    while i < len(text):
        ch = text[i]
        if ch == "\\":
            i += 2
            continue
        if ch == "{":
            depth += 1
        elif ch == "}":
            depth -= 1
            if depth < 0:
                return "unbalanced braces: a closing brace without an opening one"
        i += 1
    if depth != 0:
        return f"unbalanced braces: {depth} left open"
    # (b) one environment, all statements terminated
    if text.count("\\begin{tikzpicture}") != 1 or text.count("\\end{tikzpicture}") != 1:
        return "not exactly one tikzpicture environment"
    head, rest = text.split("\\begin{tikzpicture}")
    body, tail = rest.split("\\end{tikzpicture}")
    if tail.strip():
        return "text after the end of the picture"
    stmts = "\n".join(l for l in body.splitlines() if not l.lstrip().startswith("%"))
    chunks = stmts.split(";")
    if chunks[-1].strip():
        return f"unterminated statement at the end of the picture: {chunks[-1].strip()[:60]!r}"
    for c in chunks[:-1]:
        if not c.strip().startswith(("\\path", "\\node")):
            return f"statement does not start with a drawing command: {c.strip()[:60]!r}"
    # (c) colours defined before use
    defined = dict(re.findall(r"\\definecolor\{(reccolor\d+)\}\{HTML\}\{([0-9A-Fa-f]*)\}", head))
    for name in set(re.findall(r"reccolor\d+", body)):
        if name not in defined:
            return f"colour {name} is used in the picture but not defined before it"
    if re.search(r"\\definecolor", body):
        return "colour defined inside the picture"
    # (d) colour scoping (layout and drawing)
    exp_col = {}
    for u in onodes:
        own = recipe.get("colors", {}).get(str(onodes.index(u)))
        exp_col[u] = own if own is not None else (exp_col[u.up] if u.up is not None else None)
    for u in onodes:
        got = lay[rec[u]].branches[u].color
        want = exp_col[u] or "000000"
        if got != want:
            return f"node {u.name} is drawn with colour {got}; the colour in scope (nearest coloured ancestor-or-self) is {want}"
    want_loss_cols = sorted((exp_col[c] or "000000") for _s, c in losses)
    got_loss_cols = sorted(b.color for s in snodes for a, b in lay[s].branches.items() if a not in oset)
    if want_loss_cols != got_loss_cols:
        return f"loss nodes are coloured {got_loss_cols}, the lost lineages have colours {want_loss_cols}"
    nodes = NODE_RE.findall(text)
    drawn = sorted(defined.get(c, c) for _k, c, *_ in nodes)
    wanted = sorted(b.color for s in snodes for b in lay[s].branches.values())
    if drawn != wanted:
        return f"colours of the drawn event nodes {drawn} differ from the layout's {wanted}"
    # (e) names: escaping
    width = params.event_label_width
    labels = {}
    for u in onodes:
        labels[u] = lay[rec[u]].branches[u].name
    syn = recipe.get("syn")
    for u in onodes:
        if syn is None:
            if u.is_leaf():
                pre, _, suf = u.name.rpartition("_")
                want = esc(pre) + "\\textsubscript{" + esc(suf) + "}"
                if labels[u] != want:
                    return f"extant gene {u.name!r} is labelled {labels[u]!r}, expected {want!r} (underscores and backslashes escaped)"
            elif labels[u] != "":
                return f"internal node {u.name} is labelled {labels[u]!r} in a reconciliation without syntenies"
        else:
            fams = list(out.syntenies[u])
            parent = list(out.syntenies[u.up]) if u.up is not None else None
            if not u.is_leaf() and parent is not None and fams == parent:
                if labels[u] != "":
                    return f"node {u.name}: label {labels[u]!r} shown although the synteny equals the parent's"
                continue
            full = ", ".join(esc(f) for f in fams)
            lines = unwrap(labels[u], full)
            if lines is None:
                return f"synteny label of {u.name} is {labels[u]!r}; it does not list exactly the families {fams} in order (escaped, comma separated)"
            w = check_wrapped(lines, full.split(), width, f"synteny label of {u.name}")
            if w:
                return w
    # the drawing shows the layout's labels verbatim
    drawn_names = sorted((n if k == "extant gene" else t) for k, _c, n, _x, _y, t in nodes if k != "loss")
    lay_names = sorted((labels[u] or ("\\phantom{-}" if kinds[u] == "HORIZONTAL_TRANSFER" else "")) for u in onodes)
    if drawn_names != lay_names:
        return f"labels in the drawing {drawn_names} differ from the layout's {lay_names}"
    # species labels
    sp_labels = re.findall(r"node\[species label\] \{((?:[^{}]|\{[^{}]*\})*)\}", text)
    want_sp = sorted(esc(s.name) for s in snodes if s.is_leaf())
    for lab in sp_labels:
        hit = [w for w in want_sp if unwrap(lab, w) is not None]
        if not hit:
            return f"species label {lab!r} is not the escaped name of a species leaf {want_sp}"
        w = check_wrapped(unwrap(lab, hit[0]), hit[0].split(), params.species_label_width, f"species label {lab!r}")
        if w:
            return w
    if len(sp_labels) != len(want_sp):
        return f"{len(sp_labels)} species labels for {len(want_sp)} species leaves"
    return None


def check_wrap(recipe, src_root):
    textm = native.import_real(TEXT, src_root)
    words, width = recipe["wrap"], recipe["width"]
    s = " ".join(words)
    try:
        res = textm.balanced_wrap(s, width)
    except Exception as e:
        return f"balanced_wrap raised {type(e).__name__}: {e}"
    if not words:
        return None if res == "" else f"balanced_wrap of an empty text gives {res!r}"
    return check_wrapped(res.split("\n"), words, width, f"balanced_wrap({s!r}, {width})")


# ------------------------------------------------------------------ generators
def valid_mapping(rng, onodes_shape, ssh, leafmap_idx):
    """random species mapping of the internal nodes that is valid under the event model (indices into the species preorder)"""
    oroot, onodes = recon.make_tree(recon.tup(onodes_shape), "o")
    sroot, snodes = recon.make_tree(recon.tup(ssh), "s")
    oleaves = [n for n in onodes if n.is_leaf()]
    internal = [n for n in onodes if not n.is_leaf()]
    leafmap = {l: snodes[i] for l, i in zip(oleaves, leafmap_idx)}
    for _ in range(400):
        rec = dict(leafmap)
        # bottom-up choice biased towards valid placements
        ok = True
        for u in reversed(internal):
            l, r = u.children
            cands = [s for s in snodes if srec.event_of_species(s, rec[l], rec[r]) is not None]
            if not cands:
                ok = False
                break
            rec[u] = rng.choice(cands)
        if ok:
            return [snodes.index(rec[u]) for u in internal]
    return None


def gen_render(tier, rng, want_syn=(False, True)):
    n = 160 if tier != "thorough" else 2500
    made = 0
    while made < n:
        on = rng.choice([1, 2, 3, 4, 4, 5] if tier != "thorough" else [2, 3, 4, 5, 6, 8, 10])
        sn = rng.choice([1, 2, 3, 3, 4, 5])
        osh = rng.choice(recon.binary_shapes(on)) if on <= 6 else _random_shape(rng, on)
        ssh = rng.choice(recon.binary_shapes(sn))
        sleaves = [k for k, s in enumerate(srec._nodes(ssh)) if not s]
        leafmap = [rng.choice(sleaves) for _ in range(on)]
        mp = valid_mapping(rng, osh, ssh, leafmap)
        if mp is None:
            continue
        made += 1
        nn = 2 * on - 1
        r = {"obj": osh, "sp": ssh, "leafmap": leafmap, "mapping": mp, "orientation": "VERTICAL" if made % 2 else "HORIZONTAL", "sizes_seed": rng.randrange(1000)}
        if rng.random() < 0.6:
            cols = {}
            for _ in range(rng.choice([1, 1, 2, 3])):
                cols[str(rng.randrange(nn))] = rng.choice(["ff0000", "00aa00", "0000ff"])
            r["colors"] = cols
        if rng.random() < 0.5:
            oleaf_idx = [k for k, s in enumerate(srec._nodes(osh)) if not s]
            r["onames"] = {str(k): rng.choice(NAME_VARIANTS) + "_" + rng.choice(["1", "2\\b", "x"]) for k in oleaf_idx if rng.random() < 0.7}
            r["snames"] = {str(k): rng.choice(["A", "sp_1", "X\\Y", "a b c", "very long species name here"]) + str(k) for k in sleaves if rng.random() < 0.7}
        if want_syn[made % len(want_syn)]:
            fams = [rng.choice(["a", "b1", "c_2", "polymerase12345", "x\\y", "dd", "e", "f10", "g", "hh", "i", "j"]) + str(k) for k in range(rng.randrange(1, 13))]
            syn = []
            for k, s in enumerate(srec._nodes(osh)):
                syn.append(None)
            # top-down random subsequences
            shapes = list(srec._nodes(osh))
            parent = {}
            idx = [0]

            def walk(sh, par):
                me = idx[0]
                idx[0] += 1
                parent[me] = par
                for c in sh:
                    walk(c, me)

            walk(recon.tup(osh), None)
            for k in range(len(shapes)):
                if parent[k] is None:
                    syn[k] = list(fams)
                else:
                    p = syn[parent[k]]
                    syn[k] = [f for f in p if rng.random() < 0.75] or p[:1]
                    if rng.random() < 0.3:
                        syn[k] = list(p)
            r["syn"] = syn
            r["label_width"] = rng.choice([1, 5, 10, 18, 30])
        yield r


def _random_shape(rng, n):
    if n == 1:
        return ()
    k = rng.randrange(1, n)
    return (_random_shape(rng, k), _random_shape(rng, n - k))


def gen_wrap(tier, rng):
    vocab = ["a", "bb", "ccc", "dddd", "eeeeee"]
    top = 4 if tier != "thorough" else 5
    for k in range(0, top + 1):
        for words in itertools.product(vocab[: (4 if k >= 4 else 5)], repeat=k):
            for width in (1, 2, 3, 4, 5, 7, 9, 12):
                yield {"wrap": list(words), "width": width}
    for _ in range(300 if tier != "thorough" else 5000):
        words = ["".join(rng.choice("abcdefg,") for _ in range(rng.randrange(1, 14))) for _ in range(rng.randrange(1, 12))]
        yield {"wrap": words, "width": rng.randrange(1, 31)}


def gen_c15(tier, rng):
    yield from gen_render(tier, rng)
    yield from gen_wrap(tier, rng)


PARTS = {"c13": (check_c13, gen_render), "c15": (check_c15, gen_c15)}


def _work(args):
    which, r, src_root = args
    try:
        return PARTS[which][0](r, src_root)
    except Exception:
        import traceback

        return "HARNESS-FAULT " + traceback.format_exc()


def standin(name, which, describe, rule):
    fn, gen = PARTS[which]

    def run(tier, rng, src_root):
        import multiprocessing as mp
        import os

        recipes = list(gen(tier, rng))
        viol, evals = [], 0
        with mp.get_context("fork").Pool(min(16, os.cpu_count() or 4)) as pool:
            for r, w in zip(recipes, pool.imap(_work, [(which, r, src_root) for r in recipes], chunksize=16)):
                evals += 1
                if w:
                    if w.startswith("HARNESS-FAULT"):
                        raise RuntimeError(w)
                    viol.append((w, r))
                    if len(viol) >= 2:
                        pool.terminate()
                        break
        return dict(evaluations=evals, distinct_nontrivial=len({repr(r) for r in recipes[:evals]}), violations=viol, samples=recipes[:2], rule=rule)

    sd = Standin(name, run, describe=describe)
    sd.replay = lambda recipe, src_root: fn(recipe, src_root)
    return sd
