"""Bounded stand-ins for C02 / C03 / C04 / C05 (super-reconciliation): the four labelled solvers against an independent oracle.

The oracle is written from the property statements (event model of C06 + segmental losses per lost run / per charged edge) and uses
parent chains only.  Two forms: `brute_*` enumerates every (root order,) species mapping and labelling explicitly (tiny inputs);
`opt_*` minimises the same additive cost by memoised recursion over (node, species, content) and enumerates the optimal set by
backtracking.  The thorough tier cross-checks the two on the tiny scope.
"""
import itertools

from pyvc import native
from pyvc.driver import Standin
from . import recon

SR = "superrec2.compute.super_reconciliation"
USR = "superrec2.compute.unordered_super_reconciliation"
DP = "superrec2.utils.dynamic_programming"
INF = float("inf")


# ------------------------------------------------------------------ ordered model: masks over a root order
def runs_lost(child, parent, nbits, ends_count):
    """Number of maximal runs of parent positions missing from child; None if child is not contained in parent.
    ends_count=False: a run touching either end of the parent is free (partial copy)."""
    if child & ~parent:
        return None
    pos = [i for i in range(nbits) if parent >> i & 1]
    keep = [bool(child >> i & 1) for i in pos]
    runs = []
    i = 0
    while i < len(keep):
        if not keep[i]:
            j = i
            while j < len(keep) and not keep[j]:
                j += 1
            runs.append((i, j))
            i = j
        else:
            i += 1
    if ends_count:
        return len(runs)
    return sum(1 for a, b in runs if a != 0 and b != len(keep))


def event_of_species(s, x, y):
    """Event of a node in species s whose children are in x and y (None = invalid); which child is conserved for transfers."""
    anc = recon.anc
    if (anc(x, s) and x is not s) or (anc(y, s) and y is not s):
        return None
    inx, iny = anc(s, x), anc(s, y)
    if inx and iny:
        if not s.is_leaf():
            a, b = s.children
            if (anc(a, x) and anc(b, y)) or (anc(b, x) and anc(a, y)):
                return "spe"
        return "dup"
    if inx:
        return "hgt-left-kept"
    if iny:
        return "hgt-right-kept"
    return None


def rec_term(ev, s, x, y, costs):
    spe, dup, hgt, fl, sl = costs
    sk = recon.skipped
    if ev == "spe":
        return spe + fl * (sk(s, x) - 1 + sk(s, y) - 1)
    if ev == "dup":
        return dup + fl * (sk(s, x) + sk(s, y))
    if ev == "hgt-left-kept":
        return hgt + fl * sk(s, x)
    return hgt + fl * sk(s, y)


def olab_term(ev, m, ml, mr, nbits):
    """Number of segmental losses charged at a node with mask m and children masks ml, mr (None if not contained)."""
    lt, lf = runs_lost(ml, m, nbits, True), runs_lost(ml, m, nbits, False)
    rt, rf = runs_lost(mr, m, nbits, True), runs_lost(mr, m, nbits, False)
    if lt is None or rt is None:
        return None
    if ev == "spe":
        return lt + rt
    if ev == "dup":
        return min(lt + rf, lf + rt)
    if ev == "hgt-left-kept":
        return lt + rf
    return lf + rt


def mask_of(syn, order):
    return sum(1 << order.index(f) for f in syn)


def root_orders(leaf_syns, root_syn):
    fams = sorted({f for s in leaf_syns for f in s})
    if root_syn is not None:
        return [tuple(root_syn)]
    out = []
    for perm in itertools.permutations(fams):
        ok = True
        for s in leaf_syns:
            idx = [perm.index(f) for f in s]
            if idx != sorted(idx):
                ok = False
                break
        if ok:
            out.append(perm)
    return out


def is_subseq(c, p):
    it = iter(p)
    return all(any(x == y for y in it) for x in c)


class Problem:
    def __init__(self, src_root, recipe):
        self.recipe = recipe
        self.inp, self.onodes, self.snodes = recon.make_input(src_root, recipe)
        self.costs = tuple(recon.num(c) for c in recipe["costs"])
        self.oroot = self.onodes[0]
        self.internal = [n for n in self.onodes if not n.is_leaf()]
        self.leaves = [n for n in self.onodes if n.is_leaf()]
        self.leafmap = self.inp.leaf_object_species
        self.leaf_syn = {l: list(self.inp.leaf_syntenies[l]) for l in self.leaves}
        self.root_syn = recipe.get("root_syn")

    def lca_mapping(self):
        rec = dict(self.leafmap)

        def go(u):
            if u in rec:
                return rec[u]
            a, b = (go(c) for c in u.children)
            while not recon.anc(a, b):
                a = a.up
            rec[u] = a
            return a

        go(self.oroot)
        return rec


def ordered_optimum(P, base):
    """(best cost or None, set of optimal solutions) over every root order, species mapping and labelling.
    A solution is (mapping key, syntenies key)."""
    spe, dup, hgt, fl, sl = P.costs
    best, sols = None, set()
    lcamap = P.lca_mapping() if base else None
    orders = root_orders([P.leaf_syn[l] for l in P.leaves], P.root_syn)
    if P.root_syn is not None and not all(is_subseq(P.leaf_syn[l], P.root_syn) for l in P.leaves):
        orders = []
    for order in orders:
        nb = len(order)
        full = (1 << nb) - 1
        memo = {}

        def species_of(u):
            return [lcamap[u]] if base else P.snodes

        def child_best(c, x, m, ends_count):
            """min over child masks mc contained in m of opt(c, x, mc) + sl * lost runs (ends counted or free)"""
            key = ("A", c, x, m, ends_count)
            if key in memo:
                return memo[key]
            res = INF
            for mc in submasks(m):
                v = opt(c, x, mc)
                if v == INF:
                    continue
                v = v + sl * runs_lost(mc, m, nb, ends_count)
                if v < res:
                    res = v
            memo[key] = res
            return res

        def opt(u, s, m):
            key = (u, s, m)
            if key in memo:
                return memo[key]
            if u.is_leaf():
                r = 0 if (P.leafmap[u] is s and mask_of(P.leaf_syn[u], order) == m) else INF
                memo[key] = r
                return r
            l, r_ = u.children
            res = INF
            for x in (species_of(l) if not l.is_leaf() else [P.leafmap[l]]):
                for y in (species_of(r_) if not r_.is_leaf() else [P.leafmap[r_]]):
                    ev = event_of_species(s, x, y)
                    if ev is None:
                        continue
                    base_c = rec_term(ev, s, x, y, P.costs)
                    if base_c == INF:
                        continue
                    # the labelling term is additive over the two children once the event (and the free copy) is fixed
                    if ev == "spe":
                        v = child_best(l, x, m, True) + child_best(r_, y, m, True)
                    elif ev == "dup":
                        v = min(child_best(l, x, m, True) + child_best(r_, y, m, False), child_best(l, x, m, False) + child_best(r_, y, m, True))
                    elif ev == "hgt-left-kept":
                        v = child_best(l, x, m, True) + child_best(r_, y, m, False)
                    else:
                        v = child_best(l, x, m, False) + child_best(r_, y, m, True)
                    if base_c + v < res:
                        res = base_c + v
            memo[key] = res
            return res

        def enum(u, s, m, target):
            """all (mapping dict, masks dict) of subtree u with u at (s, m) and cost == target"""
            if u.is_leaf():
                if opt(u, s, m) == target:
                    yield {u: s}, {u: m}
                return
            l, r_ = u.children
            for x in (species_of(l) if not l.is_leaf() else [P.leafmap[l]]):
                for y in (species_of(r_) if not r_.is_leaf() else [P.leafmap[r_]]):
                    ev = event_of_species(s, x, y)
                    if ev is None:
                        continue
                    base_c = rec_term(ev, s, x, y, P.costs)
                    if base_c == INF:
                        continue
                    for ml in submasks(m):
                        cl = opt(l, x, ml)
                        if cl == INF or cl > target:
                            continue
                        for mr in submasks(m):
                            cr = opt(r_, y, mr)
                            if cr == INF:
                                continue
                            lt = olab_term(ev, m, ml, mr, nb)
                            if lt is None or base_c + cl + cr + sl * lt != target:
                                continue
                            for ma, sa in enum(l, x, ml, cl):
                                for mb, sb in enum(r_, y, mr, cr):
                                    yield {u: s, **ma, **mb}, {u: m, **sa, **sb}

        for s in (species_of(P.oroot) if not P.oroot.is_leaf() else [P.leafmap[P.oroot]]):
            c = opt(P.oroot, s, full)
            if c == INF:
                continue
            if best is None or c < best:
                best, sols = c, set()
            if c == best:
                for mp, ms in enum(P.oroot, s, full, c):
                    sols.add((recon_key(mp), tuple(sorted((n.name, tuple(f for i, f in enumerate(order) if ms[n] >> i & 1)) for n in ms))))
    return best, sols


def submasks(m):
    s = m
    while True:
        yield s
        if s == 0:
            return
        s = (s - 1) & m


def recon_key(mapping):
    return tuple(sorted((a.name, b.name) for a, b in mapping.items()))


def ordered_brute(P, base):
    """Explicit enumeration (tiny inputs only): every order x mapping x labelling, evaluated bottom-up node by node."""
    spe, dup, hgt, fl, sl = P.costs
    best, sols = None, set()
    lcamap = P.lca_mapping() if base else None
    orders = root_orders([P.leaf_syn[l] for l in P.leaves], P.root_syn)
    if P.root_syn is not None and not all(is_subseq(P.leaf_syn[l], P.root_syn) for l in P.leaves):
        orders = []
    for order in orders:
        nb = len(order)
        full = (1 << nb) - 1
        others = [n for n in P.internal if n is not P.oroot]
        for choice in ([tuple(lcamap[n] for n in P.internal)] if base else itertools.product(P.snodes, repeat=len(P.internal))):
            rec = dict(P.leafmap)
            rec.update(zip(P.internal, choice))
            rc = recon.recount(P.oroot, rec, P.leafmap, P.costs)
            if rc is None or rc == INF:
                continue
            for ms in itertools.product(range(1 << nb), repeat=len(others)):
                masks = {l: mask_of(P.leaf_syn[l], order) for l in P.leaves}
                masks.update(zip(others, ms))
                if not P.oroot.is_leaf():
                    masks[P.oroot] = full
                elif masks[P.oroot] != full:
                    continue
                total = rc
                ok = True
                for u in P.internal:
                    l, r_ = u.children
                    ev = event_of_species(rec[u], rec[l], rec[r_])
                    t = olab_term(ev, masks[u], masks[l], masks[r_], nb)
                    if t is None:
                        ok = False
                        break
                    total += sl * t
                if not ok:
                    continue
                if best is None or total < best:
                    best, sols = total, set()
                if total == best:
                    sols.add((recon_key(rec), tuple(sorted((n.name, tuple(f for i, f in enumerate(order) if masks[n] >> i & 1)) for n in masks))))
    return best, sols


# ------------------------------------------------------------------ unordered model
def family_choices(P):
    """For each family: the admissible node sets (gain at the LCA of the carriers, connected downwards, exactly the carrier leaves)."""
    fams = sorted({f for s in P.leaf_syn.values() for f in s})
    out = {}
    for f in fams:
        carriers = [l for l in P.leaves if f in P.leaf_syn[l]]
        g = carriers[0]
        while not all(recon.anc(g, c) for c in carriers):
            g = g.up
        required = {n for n in P.onodes if recon.anc(g, n) and any(recon.anc(n, c) for c in carriers)}
        optional = [n for n in P.onodes if recon.anc(g, n) and n not in required and not n.is_leaf()]
        sets = []
        for k in range(len(optional) + 1):
            for extra in itertools.combinations(optional, k):
                ns = required | set(extra)
                if all(n is g or n.up in ns for n in ns):
                    sets.append(frozenset(ns))
        out[f] = (g, frozenset(required), sets)
    return out


def canonical_labellings(P, fam):
    """Labellings in which every node holds either its required families or its parent's content plus its own gains."""
    req = {n: frozenset(f for f, (g, r, _) in fam.items() if n in r) for n in P.onodes}
    gains = {n: frozenset(f for f, (g, r, _) in fam.items() if g is n) for n in P.onodes}
    out = []

    def go(nodes, lab):
        if not nodes:
            out.append(dict(lab))
            return
        n, rest = nodes[0], nodes[1:]
        opts = {req[n]}
        if n.up is not None and not n.is_leaf():
            opts.add(lab[n.up] | gains[n])
        if n.is_leaf():
            opts = {frozenset(P.leaf_syn[n])}
        for o in opts:
            lab[n] = o
            go(rest, lab)
        del lab[n]

    go(list(P.onodes), {})  # preorder: parents first
    return out


def all_labellings(P, fam):
    fams = sorted(fam)
    for combo in itertools.product(*[fam[f][2] for f in fams]):
        yield {n: frozenset(f for f, ns in zip(fams, combo) if n in ns) for n in P.onodes}


def ulab_term(ev, cu, cl, cr):
    ll = 1 if cu - cl else 0
    lr = 1 if cu - cr else 0
    if ev == "spe":
        return ll + lr
    if ev == "dup":
        return min(ll, lr)
    if ev == "hgt-left-kept":
        return ll
    return lr


def unordered_optimum(P, base, labellings):
    """(best, optimal set) over the given labellings and all (or the LCA) species mappings."""
    spe, dup, hgt, fl, sl = P.costs
    lcamap = P.lca_mapping() if base else None
    best, sols = None, set()
    for lab in labellings:
        memo = {}

        def species_of(u):
            if u.is_leaf():
                return [P.leafmap[u]]
            return [lcamap[u]] if base else P.snodes

        def opt(u, s):
            if (u, s) in memo:
                return memo[(u, s)]
            if u.is_leaf():
                return 0 if P.leafmap[u] is s else INF
            l, r_ = u.children
            res = INF
            for x in species_of(l):
                cl = opt(l, x)
                if cl == INF:
                    continue
                for y in species_of(r_):
                    cr = opt(r_, y)
                    if cr == INF:
                        continue
                    ev = event_of_species(s, x, y)
                    if ev is None:
                        continue
                    v = rec_term(ev, s, x, y, P.costs) + cl + cr + sl * ulab_term(ev, lab[u], lab[l], lab[r_])
                    if v < res:
                        res = v
            memo[(u, s)] = res
            return res

        def enum(u, s, target):
            if u.is_leaf():
                if opt(u, s) == target:
                    yield {u: s}
                return
            l, r_ = u.children
            for x in species_of(l):
                cl = opt(l, x)
                if cl == INF:
                    continue
                for y in species_of(r_):
                    cr = opt(r_, y)
                    if cr == INF:
                        continue
                    ev = event_of_species(s, x, y)
                    if ev is None:
                        continue
                    if rec_term(ev, s, x, y, P.costs) + cl + cr + sl * ulab_term(ev, lab[u], lab[l], lab[r_]) != target:
                        continue
                    for ma in enum(l, x, cl):
                        for mb in enum(r_, y, cr):
                            yield {u: s, **ma, **mb}

        for s in species_of(P.oroot):
            c = opt(P.oroot, s)
            if c == INF:
                continue
            if best is None or c < best:
                best, sols = c, set()
            if c == best:
                lk = tuple(sorted((n.name, tuple(sorted(lab[n]))) for n in lab))
                for mp in enum(P.oroot, s, c):
                    sols.add((recon_key(mp), lk))
    return best, sols


# ------------------------------------------------------------------ checking the real solvers
def sol_key(out, ordered):
    syn = out.syntenies
    return (recon_key(out.object_species),
            tuple(sorted((n.name, tuple(syn[n]) if ordered else tuple(sorted(syn[n]))) for n in syn)))


def validity(P, out, ordered):
    """C04 clauses on one returned solution; None if fine."""
    rec, syn = out.object_species, out.syntenies
    for n in P.onodes:
        if n not in rec:
            return f"object node {n.name} is not mapped"
        if n not in syn:
            return f"object node {n.name} has no synteny"
    for l in P.leaves:
        if rec[l] is not P.leafmap[l]:
            return f"leaf {l.name} moved to another species"
        if (list(syn[l]) != list(P.leaf_syn[l])) if ordered else (set(syn[l]) != set(P.leaf_syn[l])):
            return f"leaf {l.name} has synteny {list(syn[l])}, input says {P.leaf_syn[l]}"
    if recon.recount(P.oroot, rec, P.leafmap, P.costs) in (None, INF):
        return "an invalid event is assigned / the cost is infinite"
    fams = sorted({f for s in P.leaf_syn.values() for f in s} | set(P.root_syn or []))
    if ordered:
        if sorted(syn[P.oroot]) != fams:
            return f"root synteny {list(syn[P.oroot])} does not hold every family exactly once"
        for u in P.internal:
            for c in u.children:
                if not is_subseq(list(syn[c]), list(syn[u])):
                    return f"synteny of {c.name} {list(syn[c])} is not a subsequence of its parent's {list(syn[u])}"
    else:
        for f in fams:
            carriers = [l for l in P.leaves if f in P.leaf_syn[l]]
            g = carriers[0]
            while not all(recon.anc(g, c) for c in carriers):
                g = g.up
            for n in P.onodes:
                if f in syn[n]:
                    if not recon.anc(g, n):
                        return f"family {f} occurs at {n.name}, outside the subtree of its gain node {g.name}"
                    if n is not g and f not in syn[n.up]:
                        return f"family {f} occurs at {n.name} although its parent lacks it"
            for n in P.onodes:
                if recon.anc(g, n) and any(recon.anc(n, c) for c in carriers) and f not in syn[n]:
                    return f"family {f} is missing at {n.name}, between its gain node and a leaf that carries it"
    return None


def coherent(costs):
    spe, dup, hgt, fl, sl = [recon.num(c) for c in costs]
    return spe + 2 * sl <= dup + 2 * fl


ALGOS = {
    "base_spfs": (SR, "sreconcile_base_spfs", True, True),
    "ext_spfs": (SR, "sreconcile_extended_spfs", True, False),
    "base_uspfs": (USR, "usreconcile_base_uspfs", False, True),
    "superdtl": (USR, "usreconcile_extended_uspfs", False, False),
}


def check(recipe, src_root, clauses=("optimal", "valid", "all-any")):
    """None if the clauses hold for this input; otherwise a description of what fails."""
    import io
    import contextlib

    dp = native.import_real(DP, src_root)
    algo = recipe["algo"]
    modname, fname, ordered, base = ALGOS[algo]
    mod = native.import_real(modname, src_root)
    P = Problem(src_root, recipe)
    fn = getattr(mod, fname)
    res = {}
    for pol in ("ALL", "ANY"):
        try:
            with contextlib.redirect_stderr(io.StringIO()):
                outs = list(fn(P.inp, getattr(dp.RetentionPolicy, pol)))
        except Exception as e:
            return f"{algo}/{pol} raised {type(e).__name__}: {e}"
        res[pol] = outs
    # returned solutions refer to the (binary) input itself here
    if "valid" in clauses:
        for pol, outs in res.items():
            for o in outs:
                w = validity(P, o, ordered)
                if w:
                    return f"{algo}/{pol}: {w}"
                c = o.cost()
                if c == INF:
                    return f"{algo}/{pol}: returned a solution of infinite cost"
    if not ({"optimal", "all-any"} & set(clauses)) or not (coherent(recipe["costs"]) or recipe.get("outside_coherent_region")):
        return None
    if ordered:
        best, optimal = ordered_optimum(P, base)
    else:
        fam = family_choices(P)
        best_all, _ = unordered_optimum(P, base, all_labellings(P, fam))
        best, optimal = unordered_optimum(P, base, canonical_labellings(P, fam))
        if best != best_all:
            # the canonical labellings do not attain the optimum over all labellings: the theory the solver rests on fails
            return f"oracle: minimum over canonical labellings {best} != minimum over all labellings {best_all}"
    for pol, outs in res.items():
        keys = [sol_key(o, ordered) for o in outs]
        if best is None:
            if keys:
                return f"{algo}/{pol}: returned {len(keys)} solutions although no valid solution exists"
            continue
        if not keys:
            return f"{algo}/{pol}: returned nothing although a solution of cost {best} exists"
        for o in outs:
            c = o.cost()
            if c != best:
                return f"{algo}/{pol}: returned a solution of cost {c}; the minimum over all mappings{', root orders' if ordered else ''} and labellings is {best}"
        if "all-any" in clauses:
            if len(set(keys)) != len(keys):
                return f"{algo}/{pol}: a solution is returned twice"
            if pol == "ALL" and set(keys) != optimal:
                miss = sorted(optimal - set(keys))[:1]
                extra = sorted(set(keys) - optimal)[:1]
                return f"{algo}/ALL: returned {len(keys)} solutions, the optimal set has {len(optimal)} (missing {miss}, unexpected {extra})"
            if pol == "ANY" and (len(keys) != 1 or keys[0] not in optimal):
                return f"{algo}/ANY: returned {len(keys)} solutions (exactly one optimal solution expected)"
    return None


def crosscheck(recipe, src_root):
    """oracle self-check on tiny inputs: memoised optimum == explicit enumeration"""
    P = Problem(src_root, recipe)
    for base in (False, True):
        a = ordered_optimum(P, base)
        b = ordered_brute(P, base)
        if a != b:
            return f"oracle disagreement (ordered, base={base}): recursion {a[0]} / {len(a[1])} optima, enumeration {b[0]} / {len(b[1])} optima"
    return None


COSTS = [[1, 1, 1, 1, 1], [0, 1, 1, 1, 1], [1, 3, 2, 1, 1], [0, 2, 1, 1, 2], [1, 1, "inf", 1, 1], [1, 2, 2, 1, 0], [0, 0, 0, 0, 0], [2, 2, 1, 1, 1], [1, 4, 1, 0, 1], [1, 1, 1, 1, 0]]
FAMS = "abcd"


def _nodes(sh):
    yield sh
    for c in sh:
        yield from _nodes(c)


def gen(tier, rng, models=("ordered", "unordered"), count=None):
    n = count or (36 if tier != "thorough" else 400)
    for i in range(n):
        model = models[i % len(models)]
        if model == "ordered":
            on = rng.choice([2, 3, 3, 4, 4, 5] if tier == "thorough" else [2, 3, 3, 4, 4])
            sn = rng.choice([1, 2, 3, 3] if tier != "thorough" else [1, 2, 3, 4])
            nf = rng.choice([1, 2, 3, 3, 4] if on <= 4 else [2, 3])
        else:
            on = rng.choice([3, 4, 4, 5, 5])
            sn = rng.choice([1, 2, 3, 3, 4])
            nf = rng.choice([2, 3, 4, 4])
        shapes = recon.binary_shapes(on)
        osh = rng.choice(shapes)
        if rng.random() < 0.3:  # caterpillars: long chains of inheritance
            osh = ()
            for _ in range(on - 1):
                osh = (osh, ()) if rng.random() < 0.5 else ((), osh)
        ssh = rng.choice(recon.binary_shapes(sn))
        sleaves = [k for k, sh in enumerate(_nodes(ssh)) if not sh]
        fams = list(FAMS[:nf])
        if model == "ordered":
            # mostly mutually consistent orders (sub-sequences of one hidden order), sometimes inconsistent ones
            hidden = fams[:]
            rng.shuffle(hidden)
            leaf_syn = []
            for _ in range(on):
                k = rng.randrange(1, nf + 1)
                pick = sorted(rng.sample(range(nf), k))
                s = [hidden[j] for j in pick]
                if rng.random() < 0.08:
                    rng.shuffle(s)
                leaf_syn.append(s)
        else:
            leaf_syn = [sorted(rng.sample(fams, rng.randrange(1, nf + 1))) for _ in range(on)]
        costs = rng.choice(COSTS) if rng.random() < 0.6 else [rng.randrange(0, 3), rng.randrange(0, 4), rng.choice([0, 1, 2, "inf"]), rng.randrange(0, 3), rng.randrange(0, 3)]
        algos = ["base_spfs", "ext_spfs"] if model == "ordered" else ["base_uspfs", "superdtl"]
        r = {"obj": osh, "sp": ssh, "leafmap": [rng.choice(sleaves) for _ in range(on)], "leaf_syn": leaf_syn, "costs": costs, "algo": algos[(i // len(models)) % 2]}
        if rng.random() < 0.3:
            order = list(range(on))
            rng.shuffle(order)
            r["dict_order"] = order
        if model == "ordered" and rng.random() < 0.25:
            # prescribed root order: a common supersequence of the leaves when the leaves are consistent
            orders = root_orders(leaf_syn, None)
            if orders:
                r["root_syn"] = list(rng.choice(orders))
                if rng.random() < 0.35:  # a common supersequence may hold a family that no leaf carries
                    r["root_syn"].insert(rng.randrange(len(r["root_syn"]) + 1), "z")
        yield r


def _work(args):
    r, src_root, clauses = args
    try:
        if r.get("crosscheck"):
            return crosscheck(r, src_root)
        return check(r, src_root, clauses)
    except Exception as e:  # the oracle / harness itself failed: reported as a checker fault by the driver
        import traceback

        return "HARNESS-FAULT " + traceback.format_exc()


def run_parallel(recipes, src_root, clauses, stop_after=2):
    """Evaluate `check` on the recipes with a process pool; returns (evaluations, violations)."""
    import multiprocessing as mp
    import os

    viol = []
    n = 0
    ctx = mp.get_context("fork")
    with ctx.Pool(min(16, os.cpu_count() or 4)) as pool:
        for r, w in zip(recipes, pool.imap(_work, [(r, src_root, clauses) for r in recipes], chunksize=8)):
            n += 1
            if w:
                if w.startswith("HARNESS-FAULT"):
                    raise RuntimeError(w)
                viol.append((w, dict(r, clauses=list(clauses))))
                if len(viol) >= stop_after:
                    pool.terminate()
                    break
    return n, viol


def standin(name, models, clauses, describe, quick=2400, thorough=24000):
    def run(tier, rng, src_root):
        recipes = list(gen(tier, rng, models, count=quick if tier != "thorough" else thorough))
        if tier == "thorough" and "ordered" in models:
            for r in gen("quick", rng, ("ordered",), count=120):
                if len([x for x in _nodes(recon.tup(r["obj"])) if not x]) <= 3 and len({f for sy in r["leaf_syn"] for f in sy}) <= 3:
                    recipes.append(dict(r, crosscheck=True))
        evals, viol = run_parallel(recipes, src_root, clauses)
        seen = {repr(r) for r in recipes[:evals]}
        return dict(evaluations=evals, distinct_nontrivial=len(seen), violations=viol, samples=recipes[1:40:13],
                    rule="random binary inputs (object trees 2-4 (5) leaves, species trees 1-3 (4) leaves, 1-4 families, every leaf assignment and family subset, "
                         "consistent and inconsistent leaf orders, optional prescribed root order, cost vectors incl. zero / infinite entries); each solver run under ALL and ANY and compared "
                         "with an independent optimum over every species mapping, root order and labelling (coherent cost region) and with the validity clauses (all cost vectors); "
                         "distinct = distinct recipes")

    sd = Standin(name, run, describe=describe)

    def replay(recipe, src_root):
        if recipe.get("crosscheck"):
            return crosscheck(recipe, src_root)
        return check(recipe, src_root, tuple(recipe.get("clauses", clauses)))

    sd.replay = replay
    return sd


# ---- recorded defect F-COHERENCE for the labelled solvers (outside spe + 2*sloss <= dup + 2*floss): witness inputs replayed on every run
KNOWN_WITNESSES = [
    {"id": "F-COHERENCE witness 3", "obj": (((), ()), ()), "sp": (((), ()), ()), "leafmap": [2, 3, 4], "leaf_syn": [["d", "a", "c", "b"], ["d", "b"], ["b"]],
     "costs": [3, 0, "inf", 1, 0], "algo": "ext_spfs", "dict_order": [2, 1, 0], "outside_coherent_region": True},
    {"id": "F-COHERENCE witness 4", "obj": ((), ((), ())), "sp": ((((), ()), ()), ()), "leafmap": [6, 5, 4], "leaf_syn": [["a", "b", "c"], ["b"], ["b", "c"]],
     "costs": [4, 1, "inf", 1, 1], "algo": "superdtl", "outside_coherent_region": True},
]


def witness_standin(name, ids):
    def run(tier, rng, src_root):
        viol = []
        ws = [r for r in KNOWN_WITNESSES if r["id"] in ids]
        for r in ws:
            w = check({k: v for k, v in r.items() if k != "id"}, src_root, ("optimal",))
            if w:
                viol.append((f"[{r['id']}] {w}", r))
        return dict(evaluations=len(ws), distinct_nontrivial=len(ws), violations=viol, samples=ws[:1],
                    rule="replay of the recorded witness inputs of known finding F-COHERENCE (cost vectors outside spe + 2*sloss <= dup + 2*floss)")

    sd = Standin(name, run, describe="the listed witness inputs only")
    sd.replay = lambda recipe, src_root: check({k: v for k, v in recipe.items() if k != "id"}, src_root, ("optimal",))
    return sd
