"""Bounded stand-in for C01 / C05 / C04 (plain reconciliation): thl, exhaustive, generate_all against a brute-force oracle."""
import itertools

from pyvc import native
from pyvc.driver import Standin
from . import recon

CR = "superrec2.compute.reconciliation"
CE = "superrec2.compute.exhaustive"
DP = "superrec2.utils.dynamic_programming"


def coherent(costs):
    spe, dup, hgt, fl, sl = [recon.num(c) for c in costs]
    return spe <= dup + 2 * fl


def key_of(mapping):
    return tuple(sorted((a.name, b.name) for a, b in mapping.items()))


def check(recipe, src_root):
    """None if every clause of C01/C05/C04 (plain reconciliation part) holds on this input."""
    cr = native.import_real(CR, src_root)
    ce = native.import_real(CE, src_root)
    dp = native.import_real(DP, src_root)
    inp, onodes, snodes = recon.make_input(src_root, recipe)
    costs = tuple(recon.num(c) for c in recipe["costs"])
    inf = recon.num("inf")
    # oracle
    valid = {}
    for rec in recon.all_mappings(onodes, snodes, inp.leaf_object_species):
        c = recon.recount(inp.object_tree, rec, inp.leaf_object_species, costs)
        if c is not None:
            valid[key_of(rec)] = c
    finite = {k: c for k, c in valid.items() if c != inf}
    best = min(finite.values()) if finite else None
    optimal = {k for k, c in finite.items() if c == best}
    which = recipe.get("only")
    # generate_all: every valid reconciliation exactly once
    if which in (None, "gen"):
        try:
            outs = list(ce.generate_all(inp))
        except Exception as e:
            return f"generate_all raised {type(e).__name__}: {e}"
        keys = [key_of(o.object_species) for o in outs]
        if sorted(keys) != sorted(valid):
            extra = [k for k in keys if k not in valid]
            missing = [k for k in valid if k not in keys]
            return f"generate_all yielded {len(keys)} mappings ({len(set(keys))} distinct); oracle has {len(valid)} valid reconciliations; invalid yielded: {extra[:1]}; missing: {missing[:1]}"
    for name, fn in (("thl", cr.reconcile_thl), ("exh", ce.reconcile_exhaustive)):
        if which not in (None, name):
            continue
        res = {}
        for pol in ("ALL", "ANY"):
            try:
                outs = fn(inp, getattr(dp.RetentionPolicy, pol))
            except Exception as e:
                return f"{name}/{pol} raised {type(e).__name__}: {e}"
            outs = list(outs)
            keys = [key_of(o.object_species) for o in outs]
            res[pol] = keys
            for o, k in zip(outs, keys):
                if k not in valid:
                    return f"{name}/{pol} returned an invalid or partial reconciliation {k}"
                c = o.cost()
                if c != valid[k]:
                    return f"{name}/{pol}: evaluator says {c}, recount says {valid[k]} for {k}"
                if c == inf:
                    return f"{name}/{pol} returned a solution of infinite cost"
                if valid[k] != best:
                    return f"{name}/{pol} returned cost {valid[k]}, the minimum over all valid reconciliations is {best}"
            if len(set(keys)) != len(keys):
                return f"{name}/{pol} returned a solution twice"
            if best is None and keys:
                return f"{name}/{pol} returned solutions although no finite-cost reconciliation exists"
            if best is not None and not keys:
                return f"{name}/{pol} returned nothing although a valid reconciliation of cost {best} exists"
        if set(res["ALL"]) != optimal:
            return f"{name}/ALL returned {len(res['ALL'])} solutions, the optimal set has {len(optimal)} (missing {sorted(optimal - set(res['ALL']))[:1]})"
        if best is not None and (len(res["ANY"]) != 1 or res["ANY"][0] not in optimal):
            return f"{name}/ANY returned {len(res['ANY'])} solutions"
    return None


COSTS = [[0, 1, 1, 1, 1], [1, 3, 1, 2, 1], [2, 1, 1, 1, 1], [1, 1, "inf", 1, 1], [0, 0, 0, 0, 0], [3, 2, 2, 1, 1], [0, 2, 5, 0, 1], [1, 0, 1, 3, 1]]


def gen(tier, rng):
    osz = (1, 2, 3) if tier != "thorough" else (1, 2, 3, 4)
    ssz = (1, 2, 3) if tier != "thorough" else (1, 2, 3, 4)
    for on in osz:
        for osh in recon.binary_shapes(on):
            for sn in ssz:
                for ssh in recon.binary_shapes(sn):
                    sleaves = [i for i, sh in enumerate(_nodes(ssh)) if not sh]
                    lms = list(itertools.product(sleaves, repeat=on))
                    rng.shuffle(lms)
                    for lm in lms[: (3 if tier != "thorough" else 8)]:
                        for costs in rng.sample(COSTS, 2 if tier != "thorough" else 4):
                            if coherent(costs):
                                yield {"obj": osh, "sp": ssh, "leafmap": list(lm), "costs": costs}
    for _ in range(900 if tier != "thorough" else 9000):
        on, sn = rng.choice([3, 4, 4, 5]), rng.choice([2, 3, 4])
        while (2 * sn - 1) ** (on - 1) > 2500:
            sn -= 1
        osh, ssh = rng.choice(recon.binary_shapes(on)), rng.choice(recon.binary_shapes(sn))
        sleaves = [i for i, sh in enumerate(_nodes(ssh)) if not sh]
        costs = rng.choice(COSTS) if rng.random() < 0.4 else [rng.randrange(0, 4), rng.randrange(0, 4), rng.choice([0, 1, 2, 3, "inf"]), rng.randrange(0, 4), 1]
        if coherent(costs):
            yield {"obj": osh, "sp": ssh, "leafmap": [rng.choice(sleaves) for _ in range(on)], "costs": costs}


def _nodes(sh):
    yield sh
    for c in sh:
        yield from _nodes(c)


def _work(args):
    r, src_root = args
    try:
        return check(r, src_root)
    except Exception:
        import traceback

        return "HARNESS-FAULT " + traceback.format_exc()


def standin(name="reconciliation:thl-exh-vs-brute-force", only=None):
    def run(tier, rng, src_root):
        import multiprocessing as mp
        import os

        recipes = [dict(r, only=only) if only else r for r in gen(tier, rng)]
        viol = []
        evals = 0
        with mp.get_context("fork").Pool(min(16, os.cpu_count() or 4)) as pool:
            for r, w in zip(recipes, pool.imap(_work, [(r, src_root) for r in recipes], chunksize=8)):
                evals += 1
                if w:
                    if w.startswith("HARNESS-FAULT"):
                        raise RuntimeError(w)
                    viol.append((w, r))
                    if len(viol) >= 2:
                        pool.terminate()
                        break
        seen = {repr(r) for r in recipes[:evals]}
        return dict(evaluations=evals, distinct_nontrivial=len(seen), violations=viol, samples=recipes[5:200:80],
                    rule="all binary object trees <= 3 (4) leaves x species trees <= 3 (4) leaves with sampled leaf assignments, plus 900 (9000) random inputs with 3-5 object leaves and 2-4 species leaves "
                         "(species without objects included), cost vectors in the coherent region spe <= dup + 2*floss incl. zero and infinite transfer cost; thl and exhaustive, ALL and ANY, and generate_all "
                         "compared with an independent enumeration + recount of all mappings; distinct = distinct recipes")

    sd = Standin(name, run, describe="bounded: <= 5 object leaves, <= 4 species leaves")
    sd.replay = check
    return sd


# ---- recorded defect F-COHERENCE (outside the region spe <= dup + 2*floss the tables price a node placed at the LCA of two separated
# children as the cheaper duplication while the evaluator charges the speciation): the listed witness inputs are replayed on every run
KNOWN_WITNESSES = [
    {"id": "F-COHERENCE witness 1", "obj": ((), ((), ())), "sp": ((), ()), "leafmap": [1, 1, 2], "costs": [3, 0, 1, 0, 1], "only": "thl"},
    {"id": "F-COHERENCE witness 2", "obj": ((), ((), ((), ()))), "sp": ((), ()), "leafmap": [1, 2, 1, 2], "costs": [4, 0, 1, 0, 1], "only": "thl"},
]


def witness_standin(name="reconciliation:F-COHERENCE-witnesses", ids=None):
    def run(tier, rng, src_root):
        viol = []
        for r in KNOWN_WITNESSES:
            if ids is not None and r["id"] not in ids:
                continue
            w = check({k: v for k, v in r.items() if k != "id"}, src_root)
            if w:
                viol.append((f"[{r['id']}] {w}", r))
        return dict(evaluations=len(KNOWN_WITNESSES), distinct_nontrivial=len(KNOWN_WITNESSES), violations=viol, samples=KNOWN_WITNESSES[:1],
                    rule="replay of the recorded witness inputs of known finding F-COHERENCE (cost vectors outside spe <= dup + 2*floss)")

    sd = Standin(name, run, describe="the listed witness inputs only")
    sd.replay = lambda recipe, src_root: check({k: v for k, v in recipe.items() if k != "id"}, src_root)
    return sd
