"""Bounded stand-in for C19 (topological orderings) against permutation filtering."""
import itertools

from pyvc import native
from pyvc.driver import Standin

TS = "superrec2.utils.toposort"


def check(recipe, src_root):
    mod = native.import_real(TS, src_root)
    n = recipe["n"]
    edges = [tuple(e) for e in recipe["edges"]]
    verts = [f"v{i}" for i in range(n)]
    graph = {v: set() for v in verts}
    for a, b in edges:
        graph[verts[a]].add(verts[b])
    want = []
    for perm in itertools.permutations(verts):
        pos = {v: i for i, v in enumerate(perm)}
        if all(pos[verts[a]] < pos[verts[b]] for a, b in edges):
            want.append(list(perm))
    shared = {k: set(v) for k, v in graph.items()}  # one graph object passed to several calls: none of them may change it
    first = mod.toposort(shared)
    if shared != graph:
        return "toposort modified the graph it was given"
    got = mod.toposort_all(shared)
    if shared != graph:
        return "toposort_all modified the graph it was given"
    if sorted(got) != sorted(want):
        return f"toposort_all returned {len(got)} orderings ({len(set(map(tuple, got)))} distinct), permutation filtering gives {len(want)}"
    one = mod.toposort(shared)
    if one != first:
        return f"two calls of toposort on the same graph returned {first!r} and {one!r}"
    if (one is None) != (len(want) == 0):
        return f"toposort returned {one!r} but {len(want)} orderings exist"
    if one is not None and list(one) not in want:
        return f"toposort returned {one!r}, which is not a topological ordering"
    return None


def standin():
    def run(tier, rng, src_root):
        evals = 0
        seen = set()
        viol = []
        samples = []

        def do(r):
            nonlocal evals
            evals += 1
            seen.add(repr(r))
            if len(samples) < 3 and evals % 97 == 3:
                samples.append(r)
            w = check(r, src_root)
            if w:
                viol.append((w, r))
            return bool(w)

        top = 3 if tier != "thorough" else 4
        for n in range(0, top + 1):
            pairs = [(a, b) for a in range(n) for b in range(n)]
            for mask in range(2 ** len(pairs)):
                if do({"n": n, "edges": [list(p) for i, p in enumerate(pairs) if mask >> i & 1]}):
                    break
            if viol:
                break
        for _ in range(300 if tier != "thorough" else 1500):
            if viol:
                break
            n = rng.randrange(4, 8)
            dens = rng.choice([0.1, 0.2, 0.35])
            acyclic = rng.random() < 0.7
            order = list(range(n))
            rng.shuffle(order)
            edges = []
            for i in range(n):
                for j in range(n):
                    if rng.random() < dens and (not acyclic or order.index(i) < order.index(j)):
                        edges.append([i, j])
            do({"n": n, "edges": edges})
        return dict(evaluations=evals, distinct_nontrivial=len(seen), violations=viol, samples=samples,
                    exhaustive=False,
                    rule="every digraph (self-loops included) on <= 3 (4 thorough) vertices and random digraphs on 4-7 vertices (70% acyclic by construction); toposort_all compared as a multiset with permutation filtering, toposort checked for validity and existence")

    sd = Standin("toposort:all-orderings-vs-permutation-filter", run, describe="bounded: all digraphs <= 3/4 vertices + random <= 7")
    sd.replay = check
    return sd
