"""Bounded stand-ins for C20: triples / supertrees / DisjointSet against independent oracles."""
import itertools

from pyvc import native
from pyvc.driver import Standin

TR = "superrec2.utils.trees"
DS = "superrec2.utils.disjoint_set"


# ---- independent oracle: rooted binary leaf-labelled trees as nested frozensets
def all_binary(leaves):
    leaves = list(leaves)
    if len(leaves) == 1:
        return [leaves[0]]
    out = []
    first, rest = leaves[0], leaves[1:]
    # split: the part containing `first`
    for r in range(0, len(rest)):
        for comb in itertools.combinations(rest, r):
            a = [first] + list(comb)
            b = [x for x in rest if x not in comb]
            for ta in all_binary(a):
                for tb in all_binary(b):
                    out.append(frozenset([ta, tb]))
    return out


def leafset(t):
    if isinstance(t, str):
        return frozenset([t])
    return frozenset().union(*[leafset(c) for c in t])


def clades(t):
    if isinstance(t, str):
        return {frozenset([t])}
    out = {leafset(t)}
    for c in t:
        out |= clades(c)
    return out


def displays(cl, triple):
    a, b, c = triple
    # ab|c  <=>  some clade contains a and b but not c
    return any(a in k and b in k and c not in k for k in cl)


def triples_of(cl, leaves):
    out = set()
    for a, b, c in itertools.permutations(sorted(leaves), 3):
        if a < b and displays(cl, (a, b, c)):
            out.add((a, b, c))
    return out


def to_ete(t):
    from ete3 import Tree

    if isinstance(t, str):
        return Tree(name=t)
    n = Tree()
    for c in sorted(t, key=lambda x: sorted(leafset(x))):
        n.add_child(to_ete(c))
    return n


def ete_clades(tree):
    return {frozenset(l.name for l in n.get_leaves()) for n in tree.traverse()}


def ete_binary(tree):
    return all(len(n.children) in (0, 2) for n in tree.traverse())


def check_triples(recipe, src_root):
    mod = native.import_real(TR, src_root)
    kind = recipe["kind"]
    leaves = recipe["leaves"]
    if kind == "roundtrip":
        t = all_binary(leaves)[recipe["tree"]]
        lv, tr = mod.tree_to_triples(to_ete(t))
        if sorted(lv) != sorted(leaves):
            return f"tree_to_triples leaf list {lv}"
        for x in tr:
            if not (x[0] <= x[1]) or not displays(clades(t), x):
                return f"tree_to_triples produced {x}, not a canonical triple of the tree"
        back = mod.tree_from_triples(lv, tr)
        if back is None or ete_clades(back) != clades(t):
            return "tree_from_triples(tree_to_triples(t)) does not have the clades of t"
        one = mod.supertree([to_ete(t)])
        if one is None or ete_clades(one) != clades(t):
            return "supertree([t]) does not have the clades of t"
        return None
    if kind == "subset":
        triples = [tuple(x) for x in recipe["triples"]]
        cands = all_binary(leaves)
        want = [clades(t) for t in cands if all(displays(clades(t), x) for x in triples)]
        got = mod.all_trees_from_triples(list(leaves), list(triples))
        got_c = [ete_clades(g) for g in got]
        if any(not ete_binary(g) for g in got):
            return "all_trees_from_triples returned a non-binary tree"
        key = lambda c: sorted(map(sorted, c))
        if sorted(map(key, got_c)) != sorted(map(key, want)):
            return f"all_trees_from_triples returned {len(got_c)} trees ({len(set(map(lambda c: str(key(c)), got_c)))} distinct), oracle has {len(want)}"
        one = mod.tree_from_triples(list(leaves), list(triples))
        if (one is None) != (len(want) == 0):
            return f"tree_from_triples returned {'None' if one is None else 'a tree'} but {len(want)} displaying trees exist"
        if one is not None:
            if {l.name for l in one.get_leaves()} != set(leaves) or not all(displays(ete_clades(one), x) for x in triples):
                return "tree_from_triples returned a tree that does not display every triple"
        return None
    if kind == "supertree":
        full = all_binary(leaves)[recipe["tree"]]
        parts = []
        for keep in recipe["restrictions"]:
            cl = {k & frozenset(keep) for k in clades(full)}
            cl = {k for k in cl if k}
            # rebuild the restricted tree from its clades
            parts.append(cl)
        trees = []
        for cl in parts:
            def build(S):
                if len(S) == 1:
                    return next(iter(S))
                subs = [k for k in cl if k < S]
                maxi = [k for k in subs if not any(k < o for o in subs)]
                return frozenset(build(m) for m in maxi)
            top = max(cl, key=len)
            trees.append(to_ete(build(top)))
        st = mod.supertree(trees)
        if st is None:
            return "supertree of restrictions of one tree is None (they are compatible)"
        stc = ete_clades(st)
        for cl in parts:
            lv = max(cl, key=len)
            for x in triples_of(cl, lv):
                if not displays(stc, x):
                    return f"supertree does not display triple {x} of an input tree"
        return None
    raise ValueError(kind)


def triples_standin():
    def run(tier, rng, src_root):
        evals = 0
        distinct = set()
        viol = []
        samples = []

        def do(recipe):
            nonlocal evals
            evals += 1
            distinct.add(repr(recipe))
            if len(samples) < 3 and evals % 50 == 1:
                samples.append(recipe)
            w = check_triples(recipe, src_root)
            if w:
                viol.append((w, recipe))
            return bool(w)

        top = 5 if tier == "thorough" else 4
        for n in range(1, top + 1):
            leaves = [chr(ord("a") + i) for i in range(n)]
            for i in range(len(all_binary(leaves))):
                if do({"kind": "roundtrip", "leaves": leaves, "tree": i}):
                    break
        leaves4 = list("abcd")
        alltr = sorted({x for t in all_binary(leaves4) for x in triples_of(clades(t), leaves4)})
        subsets = []
        for r in range(0, 4 if tier != "thorough" else len(alltr) + 1):
            subsets += list(itertools.combinations(alltr, r))
        if tier != "thorough":
            subsets = subsets[:: max(1, len(subsets) // 120)]
        for sub in subsets:
            if viol:
                break
            do({"kind": "subset", "leaves": leaves4, "triples": [list(x) for x in sub]})
        for _ in range(20 if tier != "thorough" else 200):
            if viol:
                break
            n = rng.choice([5, 6]) if tier == "thorough" else 5
            leaves = [chr(ord("a") + i) for i in range(n)]
            trees = all_binary(leaves) if n <= 5 else None
            base = rng.randrange(105) if n == 5 else None
            if n == 5:
                tr = sorted(triples_of(clades(trees[base]), leaves))
                k = rng.randrange(0, len(tr) + 1)
                sub = rng.sample(tr, k)
                if rng.random() < 0.3:
                    sub.append(tuple(rng.sample(leaves, 3)))
                    sub[-1] = (min(sub[-1][:2]), max(sub[-1][:2]), sub[-1][2])
                do({"kind": "subset", "leaves": leaves, "triples": [list(x) for x in sub]})
                keep1 = rng.sample(leaves, 4)
                keep2 = rng.sample(leaves, 4)
                do({"kind": "supertree", "leaves": leaves, "tree": base, "restrictions": [sorted(keep1), sorted(keep2)]})
        return dict(evaluations=evals, distinct_nontrivial=len(distinct), violations=viol, samples=samples,
                    rule="round trip on all binary trees <= 4 (5) leaves; all_trees / one-tree on triple subsets of 4 leaves (sampled; all subsets thorough) and random subsets on 5 leaves; supertree of two random 4-leaf restrictions; oracle = explicit enumeration of binary trees as nested sets")

    sd = Standin("trees:triples-and-supertrees", run, describe="bounded: <= 5 leaves")
    sd.replay = check_triples
    return sd


# ---- DisjointSet against a naive partition
def check_ds(recipe, src_root):
    mod = native.import_real(DS, src_root)
    n = recipe["n"]
    ds = mod.DisjointSet(n)
    label = list(range(n))
    for a, b in recipe["unions"]:
        exp = label[a] != label[b]
        got = ds.unite(a, b)
        if got != exp:
            return f"unite({a},{b}) returned {got}, expected {exp}"
        if exp:
            la, lb = label[a], label[b]
            label = [la if x == lb else x for x in label]
        if recipe.get("lazy"):
            continue  # no query between the unions: the structure is only inspected at the end (deep parent chains survive)
        classes = {}
        for i, l in enumerate(label):
            classes.setdefault(l, []).append(i)
        want = sorted(classes.values())
        if len(ds) != len(want):
            return f"len() = {len(ds)}, expected {len(want)} after {recipe['unions']}"
        if sorted(sorted(g) for g in ds.to_list()) != want:
            return f"to_list() = {ds.to_list()}, expected {want}"
        for i in range(n):
            for j in range(n):
                if (ds.find(i) == ds.find(j)) != (label[i] == label[j]):
                    return f"find({i}) == find({j}) disagrees with the generated partition"
    classes = {}
    for i, l in enumerate(label):
        classes.setdefault(l, []).append(i)
    blocks = sorted(classes.values())
    got = [sorted(sorted(g) for g in b.to_list()) for b in ds.binary()]
    want = []
    k = len(blocks)
    for mask in range(1, 2 ** k - 1):
        if mask & 1:  # block 0 on the left: each two-block coarsening once
            a = sorted(x for i in range(k) if mask >> i & 1 for x in blocks[i])
            b = sorted(x for i in range(k) if not mask >> i & 1 for x in blocks[i])
            want.append(sorted([a, b]))
    if sorted(got) != sorted(want):
        return f"binary() returned {len(got)} coarsenings ({len(set(map(str, got)))} distinct), expected {len(want)}"
    # the partition itself is reported as before, also after binary() was called on it
    if sorted(sorted(g) for g in ds.to_list()) != blocks or len(ds) != len(blocks):
        return f"after binary() the partition reads {ds.to_list()} (len {len(ds)}), the unions generate {blocks}"
    for i in range(n):
        for j in range(n):
            if (ds.find(i) == ds.find(j)) != (label[i] == label[j]):
                return f"find({i}) == find({j}) disagrees with the generated partition"
    again = [sorted(sorted(g) for g in b.to_list()) for b in ds.binary()]
    if sorted(again) != sorted(want):
        return f"a second binary() returned {len(again)} coarsenings, expected {len(want)}"
    return None


def ds_standin():
    def run(tier, rng, src_root):
        evals = 0
        viol = []
        samples = []
        n = 5
        pairs = [(a, b) for a in range(n) for b in range(n)]
        top = 2 if tier != "thorough" else 3
        seen = set()
        for ln in range(0, top + 1):
            for hist in itertools.product(pairs, repeat=ln):
                r = {"n": n, "unions": [list(p) for p in hist]}
                evals += 1
                seen.add(repr(r))
                w = check_ds(r, src_root)
                if w:
                    viol.append((w, r))
                    break
            if viol:
                break
        for it in range(3000 if tier != "thorough" else 30000):
            if viol:
                break
            m = rng.randrange(1, 9) if it % 3 else rng.randrange(9, 13)
            r = {"n": m, "unions": [[rng.randrange(m), rng.randrange(m)] for _ in range(rng.randrange(0, 8 if it % 3 else 12))]}
            if it % 2:
                r["lazy"] = True
            evals += 1
            seen.add(repr(r))
            if len(samples) < 3:
                samples.append(r)
            w = check_ds(r, src_root)
            if w:
                viol.append((w, r))
        # tournament histories (pairs, pairs of pairs, ...) without any query in between: the deepest parent chains union by rank can build
        for it in range(300 if tier != "thorough" else 3000):
            if viol:
                break
            m = rng.choice([8, 8, 16])
            blocks = [[i] for i in range(m)]
            rng.shuffle(blocks)
            unions = []
            while len(blocks) > 1:
                nxt = []
                for a, b in zip(blocks[0::2], blocks[1::2]):
                    x, y = rng.choice(a), rng.choice(b)
                    unions.append([x, y] if rng.random() < 0.5 else [y, x])
                    nxt.append(a + b)
                blocks = nxt
            r = {"n": m, "unions": unions, "lazy": True}
            evals += 1
            seen.add(repr(r))
            w = check_ds(r, src_root)
            if w:
                viol.append((w, r))
        return dict(evaluations=evals, distinct_nontrivial=len(seen), violations=viol, samples=samples,
                    rule="all union histories of length <= 2 (3 thorough) on 5 elements and random histories <= 11 on <= 12 elements (half of them without any query between the unions) and tournament histories on 8 / 16 elements, against a naive relabelling partition: unite result, len, to_list, find-equivalence after every step, binary() = each two-block coarsening once")

    sd = Standin("disjoint_set:partition-and-coarsenings", run, describe="bounded: histories <= 2/3 on 5 elements + random")
    sd.replay = check_ds
    return sd
