"""Shared builders and an independent brute-force oracle for reconciliation inputs (bounded stand-ins)."""
import itertools

from pyvc import native

MR = "superrec2.model.reconciliation"


def binary_shapes(n):
    """All ordered rooted binary tree shapes with n leaves: a leaf is (), an internal node (left, right)."""
    if n == 1:
        return [()]
    out = []
    for k in range(1, n):
        for a in binary_shapes(k):
            for b in binary_shapes(n - k):
                out.append((a, b))
    return out


def make_tree(shape, prefix, names="unique"):
    """ete3 tree of the shape; nodes named <prefix><preorder index>; returns (root, nodes in preorder).
    names: 'unique' | 'blank-internal' (what ete3 gives for Newick without internal labels) | 'dup' (repeated names)."""
    from ete3 import Tree

    nodes = []

    def go(sh):
        t = Tree()
        t.name = f"{prefix}{len(nodes)}"
        if names == "blank-internal" and sh:
            t.name = ""
        if names == "dup":
            t.name = f"{prefix}{len(nodes) % 2}"
        nodes.append(t)
        for c in sh:
            t.add_child(go(c))
        return t

    return go(shape), nodes


def tup(x):
    return tuple(tup(i) for i in x)


def cost_dict(mod, costs):
    import infinity

    spe, dup, hgt, fl, sl = [infinity.inf if c == "inf" else c for c in costs]
    return {mod.NodeEvent.SPECIATION: spe, mod.NodeEvent.DUPLICATION: dup, mod.NodeEvent.HORIZONTAL_TRANSFER: hgt,
            mod.EdgeEvent.FULL_LOSS: fl, mod.EdgeEvent.SEGMENTAL_LOSS: sl}


def make_input(src_root, recipe, klass="ReconciliationInput"):
    """recipe: obj, sp (shapes), leafmap (species-node index per object leaf, in preorder of leaves), costs,
    optional leaf_syn (list of family lists per object leaf)."""
    mod = native.import_real(MR, src_root)
    trees = native.import_real("superrec2.utils.trees", src_root)
    oroot, onodes = make_tree(tup(recipe["obj"]), "o")
    sroot, snodes = make_tree(tup(recipe["sp"]), "s", recipe.get("sp_names", "unique"))
    oleaves = [n for n in onodes if n.is_leaf()]
    leafmap = {l: snodes[i] for l, i in zip(oleaves, recipe["leafmap"])}
    kw = dict(object_tree=oroot, species_lca=trees.LowestCommonAncestor(sroot), leaf_object_species=leafmap,
              costs=cost_dict(mod, recipe["costs"]))
    if "leaf_syn" in recipe:
        pairs = list(zip(oleaves, recipe["leaf_syn"]))
        if recipe.get("dict_order"):  # insertion order of the mapping (a dict need not list the leaves in tree order)
            pairs = [pairs[i] for i in recipe["dict_order"]]
        kw["leaf_syntenies"] = {l: list(s) for l, s in pairs}
        if recipe.get("root_syn") is not None:
            kw["leaf_syntenies"][oroot] = list(recipe["root_syn"])
        return getattr(mod, "SuperReconciliationInput")(**kw), onodes, snodes
    return getattr(mod, klass)(**kw), onodes, snodes


# ------------------------------------------------------------------ independent oracle (parent chains only)
def anc(a, b):
    while b is not None:
        if b is a:
            return True
        b = b.up
    return False


def depth(a):
    d = 0
    while a.up is not None:
        a, d = a.up, d + 1
    return d


def event_of(u, rec, leafmap):
    """Event of object node u under mapping rec, from the documented model (None = invalid)."""
    s = rec[u]
    if u.is_leaf():
        return "leaf" if leafmap[u] is s else None
    l, r = u.children
    x, y = rec[l], rec[r]
    if (anc(x, s) and x is not s) or (anc(y, s) and y is not s):
        return None
    inx, iny = anc(s, x), anc(s, y)
    if inx and iny:
        if not s.is_leaf():
            a, b = s.children
            if (anc(a, x) and anc(b, y)) or (anc(b, x) and anc(a, y)):
                return "spe"
        return "dup"
    if inx or iny:
        return "hgt"
    return None


def skipped(s, x):
    """number of species edges on the path from s down to x"""
    return depth(x) - depth(s)


def recount(u, rec, leafmap, costs):
    """Total event cost of the subtree of u; None if invalid.  costs = (spe, dup, hgt, fl, sl) numbers (inf allowed)."""
    spe, dup, hgt, fl, sl = costs
    ev = event_of(u, rec, leafmap)
    if ev is None:
        return None
    if ev == "leaf":
        return 0
    l, r = u.children
    cl, cr = recount(l, rec, leafmap, costs), recount(r, rec, leafmap, costs)
    if cl is None or cr is None:
        return None
    s = rec[u]
    if ev == "spe":
        return spe + cl + cr + fl * (skipped(s, rec[l]) - 1 + skipped(s, rec[r]) - 1)
    if ev == "dup":
        return dup + cl + cr + fl * (skipped(s, rec[l]) + skipped(s, rec[r]))
    kept = l if anc(s, rec[l]) else r
    return hgt + cl + cr + fl * skipped(s, rec[kept])


def all_mappings(onodes, snodes, leafmap):
    internal = [n for n in onodes if not n.is_leaf()]
    for choice in itertools.product(snodes, repeat=len(internal)):
        rec = dict(leafmap)
        rec.update(dict(zip(internal, choice)))
        yield rec


def num(c):
    import infinity

    return infinity.inf if c == "inf" else c
