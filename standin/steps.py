"""Bounded stand-ins for the Bellman (recurrence) contracts of the table step functions (C01, C02, C03, C05).

The contract of each step function -- "after the call, the cell holds the optimum of its old content and of every child placement
priced by the documented event model, and (ALL) exactly the optimal placements / (ANY) one of them" -- is written here as an
executable specification that enumerates every pair of child placements explicitly, and is evaluated at run time on the REAL
function with randomly filled REAL tables (every species tree shape up to a bound, random finite / absent child cells, random cost
vectors, both retention policies, optional earlier content of the target cell).  Bounded, never counted as proved.
"""
import itertools

from pyvc import native
from pyvc.driver import Standin
from . import recon

CR = "superrec2.compute.reconciliation"
SR = "superrec2.compute.super_reconciliation"
USR = "superrec2.compute.unordered_super_reconciliation"
DP = "superrec2.utils.dynamic_programming"
MR = "superrec2.model.reconciliation"
INF = float("inf")


def _setup(src_root, recipe):
    from ete3 import Tree

    dp = native.import_real(DP, src_root)
    mr = native.import_real(MR, src_root)
    trees = native.import_real("superrec2.utils.trees", src_root)
    sroot, snodes = recon.make_tree(recon.tup(recipe["sp"]), "s")
    u = Tree(name="u")
    l = u.add_child(name="l")
    r = u.add_child(name="r")
    lca = trees.LowestCommonAncestor(sroot)
    costs = recon.cost_dict(mr, recipe["costs"])
    pol = getattr(dp.RetentionPolicy, recipe["policy"])
    return dp, lca, snodes, (u, l, r), costs, pol


def dist(s, x):
    return recon.depth(x) - recon.depth(s)


def sub(s, x):
    return recon.anc(s, x)


def sep(s, x):
    return not recon.anc(s, x) and not recon.anc(x, s)


def expected(old_value, old_tags, cands, policy):
    """Cell content after offering `cands` = [(value, tag)] to a MIN cell holding (old_value, old_tags)."""
    fin = [(v, t) for v, t in cands if v != INF]
    if not fin:
        return old_value, set(old_tags), set(old_tags)
    best = min(old_value, min(v for v, _ in fin))
    allowed = {t for v, t in fin if v == best} | (set(old_tags) if old_value == best else set())
    return best, allowed, allowed


def compare(cell, exp, policy, what):
    value, allowed, _ = exp
    got_v, got_t = cell.value(), set(cell.infos())
    if got_v != value:
        return f"{what}: cell value {got_v}, the recurrence gives {value}"
    if policy == "ALL" and got_t != allowed:
        miss = sorted(map(fmt, allowed - got_t))[:2]
        extra = sorted(map(fmt, got_t - allowed))[:2]
        return f"{what}: retained placements differ from the optimal ones (missing {miss}, unexpected {extra})"
    if policy == "ANY" and (not got_t <= allowed or len(got_t) != (1 if allowed else 0)):
        return f"{what}: ANY retained {sorted(map(fmt, got_t))}, optimal placements are {sorted(map(fmt, allowed))[:4]}"
    return None


def fmt(t):
    def f(x):
        if hasattr(x, "name"):
            return x.name
        if isinstance(x, tuple):
            return tuple(f(y) for y in x)
        return getattr(x, "name", x)
    return repr(f(tuple(t)))


def val(v):
    return INF if v in ("inf", None) else v


# ------------------------------------------------------------------ THL (C01 / C05)
def check_thl(recipe, src_root):
    cr = native.import_real(CR, src_root)
    dp, lca, S, (u, l, r), costs, pol = _setup(src_root, recipe)
    spe, dup, hgt, fl, sl = [recon.num(c) for c in recipe["costs"]]
    s = S[recipe["s"]]
    table = dp.Table((dp.DictDimension(), dp.DictDimension()), dp.MergePolicy.MIN, pol)
    T = {}
    for child, key in ((l, "tl"), (r, "tr")):
        for i, v in enumerate(recipe[key]):
            T[(child, S[i])] = val(v)
            if v is not None:
                table[child][S[i]] = dp.Candidate(v)
    old_v, old_t = INF, set()
    if recipe.get("old") is not None:
        v, a, b = recipe["old"]
        tag = cr.MappingInfo(S[a], S[b])
        table[u][s].update(dp.Candidate(v, tag))
        old_v, old_t = v, {tag}
    which = recipe["fn"]
    cands = []
    if which == "spe":
        if s.is_leaf():
            return None
        ls, rs = s.children
        for x in S:
            for y in S:
                if (sub(ls, x) and sub(rs, y)) or (sub(rs, x) and sub(ls, y)):
                    cands.append((spe + T[(l, x)] + fl * (dist(s, x) - 1) + T[(r, y)] + fl * (dist(s, y) - 1), cr.MappingInfo(x, y)))
        cr._compute_thl_try_speciation(lca, s, u, table, costs)
    else:
        for x in S:
            for y in S:
                if sub(s, x) and sub(s, y):
                    cands.append((dup + T[(l, x)] + fl * dist(s, x) + T[(r, y)] + fl * dist(s, y), cr.MappingInfo(x, y)))
                elif sub(s, x) and sep(s, y):
                    cands.append((hgt + T[(l, x)] + fl * dist(s, x) + T[(r, y)], cr.MappingInfo(x, y)))
                elif sep(s, x) and sub(s, y):
                    cands.append((hgt + T[(l, x)] + T[(r, y)] + fl * dist(s, y), cr.MappingInfo(x, y)))
        cr._compute_thl_try_duplication_transfer(lca, s, u, table, costs)
    w = compare(table[u][s], expected(old_v, old_t, cands, recipe["policy"]), recipe["policy"], f"_compute_thl_try_{'speciation' if which == 'spe' else 'duplication_transfer'}")
    if w:
        return w
    # frame: no other cell changes
    for (child, x), v in T.items():
        if table[child][x].value() != v:
            return f"frame: cell of child {child.name} at {x.name} changed"
    for x in S:
        if x is not s and not table[u][x].is_infinite():
            return f"frame: cell of the node at another species {x.name} was written"
    return None


def gen_thl(tier, rng):
    n = 1500 if tier != "thorough" else 20000
    for i in range(n):
        sn = rng.choice([1, 2, 3, 3, 4])
        ssh = rng.choice(recon.binary_shapes(sn))
        ns = 2 * sn - 1
        cell = lambda: rng.choice([None, None, 0, 1, 2, 3, 4])
        costs = [rng.randrange(0, 4), rng.randrange(0, 4), rng.choice([0, 1, 2, 3, "inf"]), rng.randrange(0, 3), 1]
        r = {"sp": ssh, "s": rng.randrange(ns), "tl": [cell() for _ in range(ns)], "tr": [cell() for _ in range(ns)],
             "costs": costs, "policy": "ALL" if i % 3 else "ANY", "fn": "spe" if i % 2 else "dt"}
        if rng.random() < 0.3:
            r["old"] = [rng.randrange(0, 9), rng.randrange(ns), rng.randrange(ns)]
        yield r


# ------------------------------------------------------------------ SPFS (C02)
def check_spfs(recipe, src_root):
    from .srec import runs_lost

    sr = native.import_real(SR, src_root)
    dp, lca, S, (u, l, r), costs, pol = _setup(src_root, recipe)
    spe, dup, hgt, fl, sl = [recon.num(c) for c in recipe["costs"]]
    s = S[recipe["s"]]
    m = recipe["m"]
    nb = recipe["nbits"]
    table = dp.Table((dp.DictDimension(), dp.DictDimension(), dp.DictDimension()), dp.MergePolicy.MIN, pol)
    cells = {l: [], r: []}
    for child, key in ((l, "tl"), (r, "tr")):
        for i, mask, v in recipe[key]:
            table[child][S[i]][mask] = dp.Candidate(v)
            cells[child].append((S[i], mask, v))
    cands = []
    OA, CA = sr.ObjectAssignment, sr.ChildrenAssignment
    for x, ml, vl in cells[l]:
        cl, sl_ = runs_lost(ml, m, nb, True), runs_lost(ml, m, nb, False)
        if cl is None:
            continue
        for y, mr_, vr in cells[r]:
            cr_, sr_ = runs_lost(mr_, m, nb, True), runs_lost(mr_, m, nb, False)
            if cr_ is None:
                continue
            tag = CA(OA(x, ml), OA(y, mr_))
            if sub(s, x) and sub(s, y):
                if not s.is_leaf():
                    a, b = s.children
                    if (sub(a, x) and sub(b, y)) or (sub(b, x) and sub(a, y)):
                        cands.append((spe + vl + fl * (dist(s, x) - 1) + sl * cl + vr + fl * (dist(s, y) - 1) + sl * cr_, tag))
                d = dup + vl + fl * dist(s, x) + vr + fl * dist(s, y)
                cands.append((d + sl * cl + sl * sr_, tag))
                cands.append((d + sl * sl_ + sl * cr_, tag))
            elif sub(s, x) and sep(s, y):
                cands.append((hgt + vl + fl * dist(s, x) + sl * cl + vr + sl * sr_, tag))
            elif sep(s, x) and sub(s, y):
                cands.append((hgt + vl + sl * sl_ + vr + fl * dist(s, y) + sl * cr_, tag))
    sr._compute_spfs_entry(lca, s, m, u, table, costs)
    return compare(table[u][s][m], expected(INF, set(), cands, recipe["policy"]), recipe["policy"], "_compute_spfs_entry")


def gen_spfs(tier, rng):
    n = 1500 if tier != "thorough" else 20000
    for i in range(n):
        sn = rng.choice([1, 2, 3, 3, 4])
        ssh = rng.choice(recon.binary_shapes(sn))
        ns = 2 * sn - 1
        nb = rng.choice([2, 3, 4])
        m = rng.randrange(1, 1 << nb)

        def cells():
            out, seen = [], set()
            for _ in range(rng.randrange(1, 6)):
                k = (rng.randrange(ns), rng.randrange(1, 1 << nb) & (m if rng.random() < 0.7 else (1 << nb) - 1) or 1)
                if k not in seen:
                    seen.add(k)
                    out.append([k[0], k[1], rng.randrange(0, 4)])
            return out

        costs = [rng.randrange(0, 3), rng.randrange(0, 4), rng.choice([0, 1, 2, 3, "inf"]), rng.randrange(0, 3), rng.randrange(0, 3)]
        yield {"sp": ssh, "s": rng.randrange(ns), "m": m, "nbits": nb, "tl": cells(), "tr": cells(), "costs": costs, "policy": "ALL" if i % 3 else "ANY"}


# ------------------------------------------------------------------ USPFS (C03)
def check_uspfs(recipe, src_root):
    usr = native.import_real(USR, src_root)
    dp, lca, S, (u, l, r), costs, pol = _setup(src_root, recipe)
    spe, dup, hgt, fl, sl = [recon.num(c) for c in recipe["costs"]]
    s = S[recipe["s"]]
    LCA, INH = usr.SyntenyAssignment.LCA, usr.SyntenyAssignment.INHERIT
    kinds = {"LCA": LCA, "INHERIT": INH}
    table = dp.Table((dp.DictDimension(), dp.DictDimension(), dp.DictDimension()), dp.MergePolicy.MIN, pol)
    cells = {l: [], r: []}
    for child, key in ((l, "tl"), (r, "tr")):
        for i, kind, v in recipe[key]:
            table[child][S[i]][kinds[kind]] = dp.Candidate(v)
            cells[child].append((S[i], kinds[kind], v))
    lca_sets = {u: set(recipe["req"][0]), l: set(recipe["req"][1]), r: set(recipe["req"][2])}
    frozen = {k: set(v) for k, v in lca_sets.items()}
    OA, CA = usr.ObjectAssignment, usr.ChildrenAssignment

    def edge(pk, child, ck, charged):
        """segmental loss on the parent-child edge (None = this combination does not denote a labelling)"""
        contained = lca_sets[u] <= lca_sets[child]
        if pk is LCA and ck is INH and contained:
            return None  # the child would inherit nothing: same labelling as (LCA, LCA)
        if not charged or ck is INH:
            return 0
        if pk is INH:
            return sl
        return 0 if contained else sl

    exp = {}
    for pk in (LCA, INH):
        cands = []
        for x, kl, vl in cells[l]:
            for y, kr, vr in cells[r]:
                tag = CA(OA(x, kl), OA(y, kr))
                el, er = edge(pk, l, kl, True), edge(pk, r, kr, True)
                fl_, fr_ = edge(pk, l, kl, False), edge(pk, r, kr, False)
                if el is None or er is None:
                    continue
                if sub(s, x) and sub(s, y):
                    if not s.is_leaf():
                        a, b = s.children
                        if (sub(a, x) and sub(b, y)) or (sub(b, x) and sub(a, y)):
                            cands.append((spe + vl + fl * (dist(s, x) - 1) + el + vr + fl * (dist(s, y) - 1) + er, tag))
                    d = dup + vl + fl * dist(s, x) + vr + fl * dist(s, y)
                    cands.append((d + el + fr_, tag))
                    cands.append((d + fl_ + er, tag))
                elif sub(s, x) and sep(s, y):
                    cands.append((hgt + vl + fl * dist(s, x) + el + vr + fr_, tag))
                elif sep(s, x) and sub(s, y):
                    cands.append((hgt + vl + fl_ + vr + fl * dist(s, y) + er, tag))
        exp[pk] = expected(INF, set(), cands, recipe["policy"])
    usr._compute_uspfs_entry(lca, s, u, lca_sets, table, costs)
    for pk in (LCA, INH):
        w = compare(table[u][s][pk], exp[pk], recipe["policy"], f"_compute_uspfs_entry[{pk.name}]")
        if w:
            return w
    if lca_sets != frozen:
        return "frame: _compute_uspfs_entry modified lca_sets"
    return None


def gen_uspfs(tier, rng):
    n = 1500 if tier != "thorough" else 20000
    fams = "abc"
    for i in range(n):
        sn = rng.choice([1, 2, 3, 3, 4])
        ssh = rng.choice(recon.binary_shapes(sn))
        ns = 2 * sn - 1

        def cells():
            out, seen = [], set()
            for _ in range(rng.randrange(1, 6)):
                k = (rng.randrange(ns), rng.choice(["LCA", "INHERIT"]))
                if k not in seen:
                    seen.add(k)
                    out.append([k[0], k[1], rng.randrange(0, 4)])
            return out

        req_u = sorted(rng.sample(fams, rng.randrange(1, 4)))
        reqs = [req_u] + [sorted(set(req_u) | set(rng.sample(fams, rng.randrange(0, 3)))) if rng.random() < 0.5 else sorted(rng.sample(fams, rng.randrange(1, 4))) for _ in range(2)]
        costs = [rng.randrange(0, 3), rng.randrange(0, 4), rng.choice([0, 1, 2, 3, "inf"]), rng.randrange(0, 3), rng.randrange(0, 3)]
        yield {"sp": ssh, "s": rng.randrange(ns), "tl": cells(), "tr": cells(), "req": reqs, "costs": costs, "policy": "ALL" if i % 3 else "ANY"}


CHECKS = {"thl": (check_thl, gen_thl), "spfs": (check_spfs, gen_spfs), "uspfs": (check_uspfs, gen_uspfs)}


def _work(args):
    which, r, src_root = args
    try:
        return CHECKS[which][0](r, src_root)
    except Exception:
        import traceback

        return "HARNESS-FAULT " + traceback.format_exc()


def standin(name, which, describe):
    fn, gen = CHECKS[which]

    def run(tier, rng, src_root):
        import multiprocessing as mp
        import os

        recipes = list(gen(tier, rng))
        viol, evals = [], 0
        with mp.get_context("fork").Pool(min(16, os.cpu_count() or 4)) as pool:
            for r, w in zip(recipes, pool.imap(_work, [(which, r, src_root) for r in recipes], chunksize=16)):
                evals += 1
                if w:
                    if w.startswith("HARNESS-FAULT"):
                        raise RuntimeError(w)
                    viol.append((w, r))
                    if len(viol) >= 2:
                        pool.terminate()
                        break
        return dict(evaluations=evals, distinct_nontrivial=len({repr(r) for r in recipes[:evals]}), violations=viol, samples=recipes[:2],
                    rule="the real step function is called on a real Table filled at random (species trees <= 4 leaves, child cells absent or 0..4, random cost vectors incl. infinite transfer cost, "
                         "ALL and ANY) and the written cell is compared with the recurrence of the documented event model evaluated by explicit enumeration of every pair of child placements; "
                         "distinct = distinct recipes")

    sd = Standin(name, run, describe=describe)
    sd.replay = lambda recipe, src_root: fn(recipe, src_root)
    return sd


# ------------------------------------------------------------------ helper functions of the labelled solvers (C02 / C03)
def check_sets(recipe, src_root):
    """_compute_gain_sets / _compute_lca_sets / _make_prec_graph against their contracts, stated with parent chains only."""
    from . import srec

    usr = native.import_real(USR, src_root)
    sr = native.import_real(SR, src_root)
    recipe = {k: v for k, v in recipe.items() if k != "root_syn"}  # a prescribed root order belongs to the ordered model only
    P = srec.Problem(src_root, recipe)
    fams = sorted({f for s in P.leaf_syn.values() for f in s})
    try:
        gains = usr._compute_gain_sets(P.inp)
        snapshot = {n: set(v) for n, v in gains.items()}
        req = usr._compute_lca_sets(P.inp, gains)
    except Exception as e:
        return f"_compute_gain_sets / _compute_lca_sets raised {type(e).__name__}: {e}"
    if {n: set(v) for n, v in gains.items()} != snapshot:
        return "_compute_lca_sets modified the gain sets"
    if set(gains) != set(P.onodes) or set(req) != set(P.onodes):
        return "gain sets / required sets are not defined on exactly the nodes of the object tree"
    for f in fams:
        carriers = [l for l in P.leaves if f in P.leaf_syn[l]]
        g = carriers[0]
        while not all(recon.anc(g, c) for c in carriers):
            g = g.up
        where = [n for n in P.onodes if f in gains[n]]
        if where != [g]:
            return f"family {f} is gained at {[n.name for n in where]}, the lowest common ancestor of the leaves carrying it is {g.name}"
        for n in P.onodes:
            want = recon.anc(g, n) and any(recon.anc(n, c) for c in carriers)
            if (f in req[n]) != want:
                return f"required content of {n.name}: family {f} {'present' if f in req[n] else 'absent'}, expected {'present' if want else 'absent'} (it occurs below the node and is gained at or above it)"
    for n in P.onodes:
        if not set(gains[n]) <= set(fams) or not set(req[n]) <= set(fams):
            return f"unknown family in the sets of {n.name}"
    # precedence graph of the ordered solver (families as vertices, an edge for each pair of consecutive families of a leaf)
    try:
        prec = sr._make_prec_graph(P.inp.leaf_syntenies)
    except Exception as e:
        return f"_make_prec_graph raised {type(e).__name__}: {e}"
    want_edges = {(s[i], s[i + 1]) for s in P.leaf_syn.values() for i in range(len(s) - 1)}
    got_edges = {(a, b) for a, bs in prec.items() for b in bs}
    if set(prec) != set(fams):
        return f"_make_prec_graph: vertices {sorted(prec)} differ from the families {fams}"
    if got_edges != want_edges:
        return f"_make_prec_graph: edges {sorted(got_edges)} differ from the consecutive pairs {sorted(want_edges)}"
    return None


def gen_sets(tier, rng):
    from . import srec

    for r in srec.gen(tier, rng, ("unordered", "ordered"), count=400 if tier != "thorough" else 6000):
        yield r


CHECKS["sets"] = (check_sets, gen_sets)
