"""Value-level operations (coercions, truthiness, equality, arithmetic) for the executor."""
from __future__ import annotations
from . import smt
from .smt import Term
from .types import PT, INT, BOOL, EXT, NONE, STR, Opt, Seq, Set, Arr, Map, Tup
from .values import SV, ObjRef, EnumVal, Unsupported, TypeMismatch


class Ops:
    def __init__(self, ctx, tenv):
        self.ctx = ctx
        self.tenv = tenv
        self.ref_truthy = {}  # ref sort name -> predicate function name
        self.ref_order = {}  # ref sort name -> strict order function name (lt)
        self.ref_coercions = {}  # (from sort/record name, to sort name) -> function name (injections between uninterpreted sorts)

    # ---------------- type of a run-time value
    def pt_of(self, v) -> PT:
        if isinstance(v, SV):
            return v.pt
        if isinstance(v, bool):
            return BOOL
        if isinstance(v, int):
            return INT
        if v is None:
            return NONE
        if isinstance(v, str):
            return STR
        if isinstance(v, EnumVal):
            return PT("enum", name=v.enum)
        if isinstance(v, tuple):
            return Tup(*[self.pt_of(x) for x in v])
        if isinstance(v, ObjRef):
            return PT("obj", name=v.cls)
        raise Unsupported(f"no static type for {v!r}")

    # ---------------- conversions to terms
    def term(self, v, want: PT = None) -> Term:
        """SMT term of value v, coerced to `want` when given."""
        if isinstance(v, SV):
            t, pt = v.term, v.pt
        elif isinstance(v, bool):
            t, pt = smt.Bool(v), BOOL
        elif isinstance(v, int):
            t, pt = smt.Int(v), INT
        elif v is None:
            if want is not None and want.kind == "opt":
                return self.none_of(want)
            self.tenv.sort(NONE)
            t, pt = smt.Const("none_v", "NoneT"), NONE
        elif isinstance(v, EnumVal):
            t, pt = smt.Const(f"{v.enum}_{v.member}", v.enum), PT("enum", name=v.enum)
        elif isinstance(v, str):
            self.tenv.sort(STR)
            name = "str_" + "".join(f"{ord(c):02x}" for c in v)
            t, pt = self.ctx.named_const(name, "Str"), STR
        elif isinstance(v, tuple):
            if want is not None and want.kind == "tuple":
                items = [self.term(x, w) for x, w in zip(v, want.args)]
                pt = want
            else:
                items = [self.term(x) for x in v]
                pt = Tup(*[self.pt_of(x) for x in v])
            sort = self.tenv.sort(pt)
            t = smt.App(f"mk_{sort}", items, sort)
        else:
            raise Unsupported(f"cannot make a term of {v!r}")
        if want is None or want == pt or want.kind == "any":
            return t
        return self.coerce(t, pt, want)

    def coerce(self, t: Term, pt: PT, want: PT) -> Term:
        if pt == want:
            return t
        if pt.kind == "int" and want.kind == "ext":
            self.tenv.sort(EXT)
            return smt.App("Fin", (t,), "Ext")
        if pt.kind == "bool" and want.kind == "int":
            return smt.Ite(t, smt.Int(1), smt.Int(0))
        if want.kind == "opt":
            if pt.kind == "none":
                return self.none_of(want)
            inner = self.coerce(t, pt, want.args[0])
            s = self.tenv.sort(want)
            return smt.App(f"some_{s}", (inner,), s)
        if pt.kind == "ext" and want.kind == "int":
            return self.fin_v(t)
        if pt.kind in ("ref", "rec") and want.kind == "ref" and (pt.name, want.name) in self.ref_coercions:
            fn = self.ref_coercions[(pt.name, want.name)]
            return self.ctx.app(fn, t)
        if pt.kind == "opt" and want.kind == "ref" and pt.args[0].kind == "ref" and (pt.args[0] == want or (pt.args[0].name, want.name) in self.ref_coercions):
            # Optional value used where the payload is needed (declared injections only): the payload of `some`
            return self.coerce(self.opt_the(SV(t, pt)).term, pt.args[0], want)
        raise TypeMismatch(f"cannot coerce {pt} to {want} ({t})")

    def sv(self, v, want: PT = None) -> SV:
        if isinstance(v, SV) and (want is None or v.pt == want):
            return v
        t = self.term(v, want)
        return SV(t, want if want is not None and want.kind != "any" else self.pt_of(v))

    def none_of(self, opt_pt):
        s = self.tenv.sort(opt_pt)
        return smt.Const(f"none_{s}", s)

    # ---------------- datatype accessors with constructor/selector simplification
    def sel(self, t: Term, ctor: str, field: str, sort: str) -> Term:
        if t.op == ctor:
            fields = [f for f, _ in dict(self.ctx.datatypes[t.sort])[ctor]]
            return t.args[fields.index(field)]
        if t.op == "ite":
            c, a, b = t.args
            if a.op == ctor or b.op == ctor:
                return smt.Ite(c, self.sel(a, ctor, field, sort), self.sel(b, ctor, field, sort))
        return smt.App(field, (t,), sort)

    def is_ctor(self, t: Term, ctor: str) -> Term:
        if t.sort in self.ctx.datatypes:
            ctors = [c for c, _ in self.ctx.datatypes[t.sort]]
            if t.op in ctors or (t.op == "#const" and t.args[0] in ctors):
                name = t.op if t.op in ctors else t.args[0]
                return smt.Bool(name == ctor)
        if t.op == "ite":
            c, a, b = t.args
            ra, rb = self.is_ctor(a, ctor), self.is_ctor(b, ctor)
            if ra.is_lit() or rb.is_lit():
                return smt.Ite(c, ra, rb)
        return smt.Term(f"(_ is {ctor})", (t,), "Bool")

    def fin_v(self, t):
        return self.sel(t, "Fin", "fin_v", "Int")

    def is_fin(self, t):
        return self.is_ctor(t, "Fin")

    def opt_is_some(self, v: SV) -> Term:
        s = self.tenv.sort(v.pt)
        return self.is_ctor(v.term, f"some_{s}")

    def opt_the(self, v: SV) -> SV:
        s = self.tenv.sort(v.pt)
        inner = v.pt.args[0]
        return SV(self.sel(v.term, f"some_{s}", f"the_{s}", self.tenv.sort(inner)), inner)

    def rec_field(self, v: SV, field: str) -> SV:
        name = v.pt.name
        for f, fpt in self.tenv.records[name]:
            if f == field:
                return SV(self.sel(v.term, f"mk_{name}", f"{name}_{f}", self.tenv.sort(fpt)), fpt)
        raise Unsupported(f"record {name} has no field {field}")

    def tuple_item(self, v: SV, i: int) -> SV:
        s = self.tenv.sort(v.pt)
        ipt = v.pt.args[i]
        return SV(self.sel(v.term, f"mk_{s}", f"{s}_{i}", self.tenv.sort(ipt)), ipt)

    def arr_len(self, v: SV) -> Term:
        s = self.tenv.sort(v.pt)
        return self.sel(v.term, f"mk_{s}", f"{s}_len", "Int")

    def arr_data(self, v: SV) -> Term:
        s = self.tenv.sort(v.pt)
        es = self.tenv.sort(v.pt.args[0])
        return self.sel(v.term, f"mk_{s}", f"{s}_data", smt.ArraySort("Int", es))

    def mk_arr(self, pt: PT, ln: Term, data: Term) -> SV:
        s = self.tenv.sort(pt)
        return SV(smt.App(f"mk_{s}", (ln, data), s), pt)

    def map_dom(self, v: SV) -> Term:
        s = self.tenv.sort(v.pt)
        ks = self.tenv.sort(v.pt.args[0])
        return self.sel(v.term, f"mk_{s}", f"{s}_dom", smt.ArraySort(ks, "Bool"))

    def map_val(self, v: SV) -> Term:
        s = self.tenv.sort(v.pt)
        ks = self.tenv.sort(v.pt.args[0])
        vs = self.tenv.sort(v.pt.args[1])
        return self.sel(v.term, f"mk_{s}", f"{s}_val", smt.ArraySort(ks, vs))

    def mk_map(self, pt: PT, dom: Term, val: Term) -> SV:
        s = self.tenv.sort(pt)
        return SV(smt.App(f"mk_{s}", (dom, val), s), pt)

    # ---------------- membership in a sequence: uninterpreted predicate + witness function (pattern friendly)
    def seq_mem(self, seq_term, elem_term):
        es = elem_term.sort
        from .types import mangle

        name = "mem_" + mangle(es)
        wit = "memidx_" + mangle(es)
        ss = smt.SeqSort(es)
        if name not in self.ctx.funcs:
            self.ctx.declare_fun(name, [ss, es], "Bool")
            self.ctx.declare_fun(wit, [ss, es], "Int")
            s, e, i = smt.Var("s", ss), smt.Var("e", es), smt.Var("i", "Int")
            mem = self.ctx.app(name, s, e)
            w = self.ctx.app(wit, s, e)
            self.ctx.add_axiom(f"{name}/witness", smt.Forall([("s", ss), ("e", es)], smt.Implies(
                mem, smt.And(smt.Le(smt.Int(0), w), smt.Lt(w, smt.SeqLen(s)), smt.Eq(smt.SeqNth(s, w), e))), patterns=((mem,),)), keys=[name])
            nth = smt.SeqNth(s, i)
            self.ctx.add_axiom(f"{name}/intro", smt.Forall([("s", ss), ("i", "Int")], smt.Implies(
                smt.And(smt.Le(smt.Int(0), i), smt.Lt(i, smt.SeqLen(s))), self.ctx.app(name, s, nth)), patterns=((nth,),)), keys=[name])
        return self.ctx.app(name, seq_term, elem_term)

    # ---------------- truthiness
    def truthy(self, v) -> Term:
        if isinstance(v, bool):
            return smt.Bool(v)
        if isinstance(v, int):
            return smt.Bool(v != 0)
        if v is None:
            return smt.FALSE
        if isinstance(v, (ObjRef, EnumVal)):
            return smt.TRUE
        if isinstance(v, tuple):
            return smt.Bool(len(v) > 0)
        if isinstance(v, str):
            return smt.Bool(len(v) > 0)
        if isinstance(v, list):
            return smt.Bool(len(v) > 0)
        if not isinstance(v, SV):
            raise Unsupported(f"truthiness of {v!r}")
        k = v.pt.kind
        if k == "bool":
            return v.term
        if k == "int":
            return smt.Ne(v.term, smt.Int(0))
        if k == "ext":
            return smt.Or(smt.Not(self.is_fin(v.term)), smt.Ne(self.fin_v(v.term), smt.Int(0)))
        if k == "opt":
            inner = self.opt_the(v)
            return smt.And(self.opt_is_some(v), self.truthy(inner))
        if k == "ref":
            p = self.ref_truthy.get(v.pt.name)
            if p is None:
                return smt.TRUE
            return self.ctx.app(p, v.term)
        if k == "str":
            return smt.Ne(v.term, self.term(""))  # a string is falsy iff it is the empty string
        if k in ("rec", "enum"):
            return smt.TRUE  # NamedTuples with >= 1 field, dataclasses, enum members
        if k == "tuple":
            return smt.Bool(len(v.pt.args) > 0)
        if k == "seq":
            return smt.Gt(smt.SeqLen(v.term), smt.Int(0))
        if k == "arr":
            return smt.Gt(self.arr_len(v), smt.Int(0))
        if k == "set":
            es = self.tenv.sort(v.pt.args[0])
            x = smt.Var(smt.fresh_name("e"), es)
            return smt.Exists([(x.args[0], es)], smt.Select(v.term, x))
        if k == "map":
            ks = self.tenv.sort(v.pt.args[0])
            x = smt.Var(smt.fresh_name("e"), ks)
            return smt.Exists([(x.args[0], ks)], smt.Select(self.map_dom(v), x))
        raise Unsupported(f"truthiness of {v.pt}")

    # ---------------- equality
    def eq(self, a, b) -> Term:
        if isinstance(a, ObjRef) or isinstance(b, ObjRef):
            if isinstance(a, ObjRef) and isinstance(b, ObjRef):
                return smt.Bool(a.oid == b.oid)
            return smt.FALSE
        if not isinstance(a, SV) and not isinstance(b, SV):
            if isinstance(a, tuple) and isinstance(b, tuple):
                if len(a) != len(b):
                    return smt.FALSE
                return smt.And(*[self.eq(x, y) for x, y in zip(a, b)])
            return smt.Bool(a == b)
        pa, pb = self.pt_of(a), self.pt_of(b)
        if pa == pb:
            return smt.Eq(self.term(a), self.term(b))
        # mixed: coerce to the wider
        for x, px, y, py in ((a, pa, b, pb), (b, pb, a, pa)):
            if py.kind == "opt":
                if px.kind == "none":
                    return smt.Not(self.opt_is_some(self.sv(y)))
                if px == py.args[0] or (px.kind == "int" and py.args[0].kind == "ext"):
                    return smt.Eq(self.term(x, py), self.term(y))
            if py.kind == "ext" and px.kind == "int":
                return smt.Eq(self.term(x, EXT), self.term(y))
            if py.kind == "int" and px.kind == "bool":
                return smt.Eq(self.term(x, INT), self.term(y))
        if pa.kind == "tuple" and pb.kind == "tuple" and len(pa.args) == len(pb.args):
            xs = a if isinstance(a, tuple) else tuple(self.tuple_item(a, i) for i in range(len(pa.args)))
            ys = b if isinstance(b, tuple) else tuple(self.tuple_item(b, i) for i in range(len(pb.args)))
            return smt.And(*[self.eq(x, y) for x, y in zip(xs, ys)])
        if pa.kind == "none" or pb.kind == "none":
            return smt.FALSE
        scalar = {"int", "bool", "ext", "enum", "ref", "str", "rec"}
        if pa.kind in scalar and pb.kind in scalar and (pa.kind != pb.kind or pa.name != pb.name):
            return smt.FALSE  # values of unrelated Python types are never equal
        raise Unsupported(f"equality between {pa} and {pb}")

    # ---------------- arithmetic / comparison
    def _num_kinds(self, a, b):
        pa, pb = self.pt_of(a), self.pt_of(b)
        ka = "int" if pa.kind == "bool" else pa.kind
        kb = "int" if pb.kind == "bool" else pb.kind
        return ka, kb

    def binop(self, op: str, a, b, oblig=None):
        """op in + - * // % ; returns a value; oblig(term, what) records a safety obligation."""
        ka, kb = self._num_kinds(a, b)
        if ka == "int" and kb == "int":
            x, y = self.term(a, INT), self.term(b, INT)
            if op == "+":
                return SV(smt.Add(x, y), INT)
            if op == "-":
                return SV(smt.Sub(x, y), INT)
            if op == "*":
                return SV(smt.Mul(x, y), INT)
            if op in ("//", "%"):
                if oblig:
                    oblig(smt.Gt(y, smt.Int(0)), "divisor positive (only case modelled)")
                return SV(smt.Div(x, y) if op == "//" else smt.Mod(x, y), INT)
        if "ext" in (ka, kb) and {ka, kb} <= {"int", "ext"}:
            self.tenv.sort(EXT)
            if op == "+":
                return SV(self.ctx.app("ext_add", self.term(a, EXT), self.term(b, EXT)), EXT)
            if op == "-" and kb == "int":
                return SV(self.ctx.app("ext_sub_int", self.term(a, EXT), self.term(b, INT)), EXT)
            if op == "-" and kb == "ext":
                # x - y with y finite (the only case modelled: inf - inf is not a number in infinity.py)
                bt = self.term(b, EXT)
                if oblig:
                    oblig(self.is_fin(bt), "subtrahend is finite (x - inf not modelled)")
                return SV(self.ctx.app("ext_sub_int", self.term(a, EXT), self.fin_v(bt)), EXT)
            if op == "*":
                e, i = (a, b) if ka == "ext" else (b, a)
                et = self.term(e, EXT)
                if self.pt_of(i).kind == "ext":
                    it = self.term(i, EXT)
                    if oblig:
                        oblig(smt.And(self.is_fin(et), self.is_fin(it)), "product of two finite values (inf*x not modelled)")
                    return SV(smt.App("Fin", (smt.Mul(self.fin_v(et), self.fin_v(it)),), "Ext"), EXT)
                it = self.term(i, INT)
                if oblig:
                    oblig(smt.Or(self.is_fin(et), smt.Ne(it, smt.Int(0))), "inf * 0 raises TypeError")
                pos = smt.Gt(it, smt.Int(0))
                flipped = smt.Ite(self.is_ctor(et, "PInf"), smt.Const("NInf", "Ext"), smt.Const("PInf", "Ext"))
                return SV(
                    smt.Ite(self.is_fin(et), smt.App("Fin", (smt.Mul(self.fin_v(et), it),), "Ext"), smt.Ite(pos, et, flipped)),
                    EXT,
                )
        raise Unsupported(f"binary {op} on {self.pt_of(a)} and {self.pt_of(b)}")

    def compare(self, op: str, a, b) -> Term:
        """op in < <= > >="""
        ka, kb = self._num_kinds(a, b)
        if ka == "int" and kb == "int":
            x, y = self.term(a, INT), self.term(b, INT)
            return {"<": smt.Lt, "<=": smt.Le, ">": smt.Gt, ">=": smt.Ge}[op](x, y)
        if {ka, kb} <= {"int", "ext"}:
            self.tenv.sort(EXT)
            x, y = self.term(a, EXT), self.term(b, EXT)
            if op == "<":
                return self.ctx.app("ext_lt", x, y)
            if op == "<=":
                return self.ctx.app("ext_le", x, y)
            if op == ">":
                return self.ctx.app("ext_lt", y, x)
            return self.ctx.app("ext_le", y, x)
        pa, pb = self.pt_of(a), self.pt_of(b)
        if pa == pb and pa.kind == "ref" and pa.name in self.ref_order:
            lt = self.ref_order[pa.name]
            x, y = self.term(a), self.term(b)
            if op == "<":
                return self.ctx.app(lt, x, y)
            if op == ">":
                return self.ctx.app(lt, y, x)
            if op == "<=":
                return smt.Not(self.ctx.app(lt, y, x))
            return smt.Not(self.ctx.app(lt, x, y))
        raise Unsupported(f"comparison {op} on {pa} and {pb}")

    def minmax(self, which: str, a, b):
        """Python semantics: min(a,b) = b if b < a else a ; max(a,b) = b if b > a else a."""
        c = self.compare("<" if which == "min" else ">", b, a)
        pa, pb = self.pt_of(a), self.pt_of(b)
        want = pa if pa == pb else (EXT if "ext" in (pa.kind, pb.kind) else pa)
        return SV(smt.Ite(c, self.term(b, want), self.term(a, want)), want)

    def ite_val(self, c: Term, a, b):
        if c.op == "true":
            return a
        if c.op == "false":
            return b
        pa, pb = self.pt_of(a), self.pt_of(b)
        if pa == pb:
            want = pa
        elif pa.kind == "none" and pb.kind != "none":
            want = pb if pb.kind == "opt" else Opt(pb)
        elif pb.kind == "none":
            want = pa if pa.kind == "opt" else Opt(pa)
        elif {pa.kind, pb.kind} == {"int", "ext"}:
            want = EXT
        elif pa.kind == "opt" and pa.args[0] == pb:
            want = pa
        elif pb.kind == "opt" and pb.args[0] == pa:
            want = pb
        elif {pa.kind, pb.kind} == {"int", "bool"}:
            want = INT
        else:
            raise Unsupported(f"if-expression joining {pa} and {pb}")
        return SV(smt.Ite(c, self.term(a, want), self.term(b, want)), want)
