"""Sidecar contract objects and the registry filled by /verif/contracts/*.py."""
from __future__ import annotations
import ast
import hashlib
import importlib.util
import os


def parse_expr(text: str) -> ast.expr:
    return ast.parse(" ".join(text.split()), mode="eval").body


def _dedent_src(x):
    import textwrap

    return textwrap.dedent(x).strip() + "\n"


def norm_header(h):
    h = " ".join(h.split()).rstrip(":")
    try:
        return ast.unparse(ast.parse(h + ":\n    pass").body[0]).split("\n")[0].rstrip(":")
    except SyntaxError:
        return h


class Clause:
    def __init__(self, text, name=None, smt_only=False, native_only=False):
        self.text = " ".join(text.split())
        self.node = parse_expr(text)
        self.name = name
        self.smt_only = smt_only  # uses proof-only vocabulary (ghost enumerations); not evaluated natively
        self.native_only = native_only

    def __repr__(self):
        return self.text


def _clauses(xs):
    out = []
    for x in xs or []:
        if isinstance(x, Clause):
            out.append(x)
        elif isinstance(x, tuple):
            out.append(Clause(x[1], name=x[0]))
        else:
            out.append(Clause(x))
    return out


class LoopSpec:
    def __init__(self, header=None, index="k", length="n", invariants=(), lemmas=(), decreases=None, seq=None, enum=None, before=()):
        self.header = norm_header(header) if header else None
        self.index = index  # ghost name: iterations completed
        self.length = length  # ghost name: total number of iterations (for-loops)
        self.invariants = _clauses(invariants)
        self.lemmas = _clauses(lemmas)  # ghost lemma-call expressions asserted (proved elsewhere) at loop head
        self.before = _clauses(before)  # ghost lemma calls evaluated just before the loop
        self.decreases = decreases
        self.seq = seq  # ghost name for the enumeration function of the iterated collection
        self.enum = enum


class Contract:
    def __init__(
        self,
        target,
        params,
        returns=None,
        requires=(),
        ensures=(),
        modifies=(),
        loops=None,
        globals=None,
        raises=(),
        locals=None,
        kind="code",
        ghost=None,
        hints=(),
        pure=False,
        props=(),
        fuel=2,
        defs="both",
        body=None,
        decreases=None,
        trusted=False,
        note="",
        canary=None,
        inline_calls=(),
        vararg=None,
        defaults=None,
        prologue=(),
        at=None,
        before_call=None,
        epilogue=(),
        after=None,
    ):
        self.target = target  # "module:qualname" (code) or lemma name
        self.params = params  # ordered dict name -> type string
        self.returns = returns
        self.requires = _clauses(requires)
        self.ensures = _clauses(ensures)
        self.modifies = list(modifies)
        self.loops = {int(k): v for k, v in (loops or {}).items()}
        self.globals = dict(globals or {})
        self.raises = list(raises)  # [(exception name, condition text)]
        self.locals = dict(locals or {})
        self.kind = kind  # code | lemma | assumed
        self.ghost = dict(ghost or {})
        self.hints = _clauses(hints)
        self.pure = pure
        self.props = list(props)
        self.fuel = fuel
        self.defs = defs
        self.body = body  # lemma body source text
        self.decreases = decreases
        self.trusted = trusted or kind == "assumed"
        self.note = note
        self.canary = canary
        self.inline_calls = set(inline_calls)
        self.vararg = vararg
        self.at = {" ".join(k.split()): [ast.parse(_dedent_src(x)).body for x in v] for k, v in (at or {}).items()}  # ghost calls before matching statements
        # ghost statements run in the caller after the arguments of a call to the named callee are evaluated and before its contract is applied;
        # starred arguments are visible as star0, star1, ... and the callee's bound parameters as arg_<name>
        self.before_call = {k: [ast.parse(_dedent_src(x)).body for x in v] for k, v in (before_call or {}).items()}
        self.prologue = list(prologue)
        self.after = {" ".join(k.split()): [ast.parse(_dedent_src(x)).body for x in v] for k, v in (after or {}).items()}  # ghost statements after matching statements
        self.epilogue = [ast.parse(_dedent_src(x)).body for x in epilogue]  # ghost statements (cuts) run at every exit before the postconditions  # ghost statements executed at function entry
        self.defaults = dict(defaults or {})

    @property
    def module(self):
        return self.target.split(":")[0]

    @property
    def qualname(self):
        return self.target.split(":")[1].split("@")[0]

    @property
    def code_target(self):
        return self.target.split("@")[0]


class Registry:
    def __init__(self):
        self.contracts = {}  # target -> Contract
        self.by_method = {}  # (class, method) -> Contract
        self.by_func = {}  # bare function name -> [Contract]
        self.setup_hooks = []  # callables(engine) to declare sorts / specs
        self.scopes = {}  # target -> native input generator
        self.files = []

    def add(self, c: Contract):
        self.contracts[c.target] = c
        if ":" in c.target:
            q = c.qualname
            if "." in q:
                cls, m = q.rsplit(".", 1)
                self.by_method.setdefault((cls, m), []).append(c)
            else:
                self.by_func.setdefault(q, []).append(c)
        else:
            self.by_func.setdefault(c.target, []).append(c)
        return c

    def load_dir(self, path):
        for fn in sorted(os.listdir(path)):
            if fn.endswith(".py") and not fn.startswith("_"):
                self.load_file(os.path.join(path, fn))

    def load_file(self, path):
        spec = importlib.util.spec_from_file_location("contracts_" + os.path.basename(path)[:-3], path)
        mod = importlib.util.module_from_spec(spec)
        mod.REG = self
        spec.loader.exec_module(mod)
        if hasattr(mod, "register"):
            mod.register(self)
        self.files.append((path, hashlib.sha256(open(path, "rb").read()).hexdigest()[:16]))
        return mod
