"""Per-function symbolic execution (expressions, calls, statements, loops, contracts)."""
from __future__ import annotations
import ast
import itertools

from . import smt
from .smt import Term
from .types import PT, INT, BOOL, EXT, NONE, STR, Opt, Seq, Set, Arr, Map, Tup
from .values import (
    SV,
    ObjRef,
    EnumVal,
    EnumClass,
    RecordClass,
    ObjClass,
    Closure,
    SpecFun,
    Builtin,
    BoundMethod,
    UFun,
    Unsupported,
)
from .state import State
from .contracts import Contract, Clause, LoopSpec, parse_expr
from .exprs import ExprMixin
from .stmts import StmtMixin
from .calls import CallMixin


class FnExec(ExprMixin, CallMixin, StmtMixin):
    def __init__(self, engine, contract, fnnode, spec_mode=False):
        self.E = engine
        self.ctx = engine.ctx
        self.tenv = engine.tenv
        self.ops = engine.ops
        self.c = contract
        self.spec_mode = spec_mode  # evaluating contract/spec expressions: no safety obligations
        self.obligations = []
        self.suppress = 0  # >0: dry run, drop obligations
        self.old_state = None
        self.fn = fnnode
        self.src_sha = None
        self.path = None
        self.loop_counter = 0
        self.returns_seen = 0
        self.notes = []
        self.cur_line = None
        self.paths_explored = 0
        self.max_paths = 4000
        self._idx_cache = {}

    # ------------------------------------------------------------------ obligations
    def oblige(self, st: State, goal: Term, name: str, kind: str, text=None):
        if self.suppress or self.spec_mode:
            return
        if goal.op == "true":
            return
        from .symex import Obligation

        base = f"{self.c.target}/{name}"
        n = sum(1 for o in self.obligations if o.name == base or o.name.startswith(base + "#"))
        full = base if n == 0 else f"{base}#{n}"
        self.obligations.append(
            Obligation(full, st.pc, goal, kind, lineno=self.cur_line, text=text, fuel=self.c.fuel, defs=self.c.defs)
        )

    def safety(self, st: State, goal: Term, what: str):
        slug = "-".join(what.replace("(", " ").replace(")", " ").split()[:4])
        slug = "".join(ch if ch.isalnum() or ch == "-" else "" for ch in slug)
        self.oblige(st, goal, f"safety/{slug}@L{self.cur_line}", "safety", text=what)

    # ------------------------------------------------------------------ fresh values
    def fresh(self, base, pt: PT, st: State = None):
        """Fresh symbolic value of type pt (objects get fresh fields)."""
        if pt.kind == "obj":
            return self.alloc(pt.name, st, base)
        if pt.kind == "tuple":
            return tuple(self.fresh(f"{base}_{i}", a, st) for i, a in enumerate(pt.args))
        if pt.kind == "none":
            return None
        if pt.kind == "any":
            raise Unsupported(f"cannot havoc untyped value {base}")
        return SV(self.ctx.fresh_const(base, self.tenv.sort(pt)), pt)

    def alloc(self, cls, st: State, base="obj", fields=None):
        ref = ObjRef(self.E.new_oid(), cls)
        decl = self.tenv.classes[cls]
        st.heap[ref.oid] = {}
        for f, fpt in decl.items():
            if fields is not None and f in fields:
                st.heap[ref.oid][f] = fields[f]
            else:
                st.heap[ref.oid][f] = self.fresh(f"{base}.{f}", fpt, st)
        return ref

    def havoc_like(self, base, v, st):
        if isinstance(v, ObjRef):
            for f in list(st.heap[v.oid]):
                st.heap[v.oid][f] = self.havoc_like(f"{base}.{f}", st.heap[v.oid][f], st)
            return v
        if isinstance(v, tuple):
            return tuple(self.havoc_like(f"{base}_{i}", x, st) for i, x in enumerate(v))
        if isinstance(v, (Closure, SpecFun, Builtin, EnumClass, RecordClass, ObjClass, UFun)):
            return v
        if v is None:
            return None
        if isinstance(v, dict):
            return {k: self.havoc_like(f"{base}_{k}", x, st) for k, x in v.items()}
        pt = self.ops.pt_of(v)
        return self.fresh(base, pt, st)

    # ------------------------------------------------------------------ top level
    def run(self):
        c = self.c
        try:
            if c.kind == "lemma":
                self.run_lemma()
            else:
                self.run_code()
        except Unsupported as e:
            self.unbound = str(e)
        else:
            self.unbound = None
        return self

    def bind_params(self, st: State):
        for name, tyt in self.c.params.items():
            pt = self.tenv.parse(tyt) if isinstance(tyt, str) else tyt
            if isinstance(pt, UFun):
                st.env[name] = pt
                continue
            v = self.fresh(name, pt, st)
            st.env[name] = v
            if isinstance(v, ObjRef):
                st.param_oids.add(v.oid)
        for gname, gt in self.c.ghost.items():
            st.env[gname] = self.fresh(gname, self.tenv.parse(gt), st)

    def snapshot_old(self, st):
        self.old_state = st.fork()
        self.old_state.writes = None
        self.entry_state = self.old_state

    def eval_clause(self, cl: Clause, st: State) -> Term:
        saved = self.spec_mode
        self.spec_mode = True
        try:
            v = self.eval(cl.node, st)
            return self.ops.truthy(v) if not (isinstance(v, SV) and v.pt.kind == "bool") else v.term
        finally:
            self.spec_mode = saved

    def run_code(self):
        c = self.c
        fn, sha, path = self.E.find_function(c.target)
        self.fn, self.src_sha, self.path = fn, sha, path
        self.check_signature(fn)
        st = State()
        self.bind_params(st)
        self.snapshot_old(st)
        for i, r in enumerate(c.requires):
            t_pre = self.eval_clause(r, st)
            st.assume(t_pre)
            self.E.hyp_origin[str(t_pre)] = "pre"
        # cover: precondition satisfiable (vacuity guard); expected NOT to be proved false
        from .symex import Obligation

        cov = Obligation(f"{c.target}/cover/requires", st.pc, smt.FALSE, "cover", fuel=c.fuel, defs=c.defs)
        cov.expect = "not-unsat"
        self.obligations.append(cov)
        self.snapshot_old(st)
        self.entry_pc_len = len(st.pc)
        is_gen = any(isinstance(n, (ast.Yield, ast.YieldFrom)) for n in ast.walk(fn))
        if is_gen:
            rpt = self.tenv.parse(c.returns)
            st.env["__yielded__"] = SV(smt.SeqEmpty(self.tenv.sort(rpt.args[0])), rpt)
        ghost_body = []
        for src in c.prologue:
            ghost_body += ast.parse(_dedent(src)).body
        for g in ghost_body:
            for n in ast.walk(g):
                n.lineno = getattr(n, "lineno", 0) or 0
        results = self.exec_block(ghost_body + fn.body, st)
        for st2, flow, val in results:
            if is_gen and flow in (Flow.NORMAL, Flow.RETURN):
                rpt = self.tenv.parse(c.returns)
                val = st2.env.get("__yielded__") or SV(smt.SeqEmpty(self.tenv.sort(rpt.args[0])), rpt)
                self.check_post(st2, val)
            elif flow in (Flow.NORMAL,):
                self.check_post(st2, None)
            elif flow == Flow.RETURN:
                self.check_post(st2, val)
            else:
                raise Unsupported("break/continue outside loop")

    def check_signature(self, fn):
        names = [a.arg for a in fn.args.posonlyargs + fn.args.args]
        if fn.args.vararg:
            names.append(fn.args.vararg.arg)
        names += [a.arg for a in fn.args.kwonlyargs]
        declared = [n for n in self.c.params if n not in self.c.ghost]
        if names != declared:
            raise Unsupported(f"binding drift: parameters {names} != contract {declared}")

    def check_post(self, st: State, val):
        c = self.c
        self.returns_seen += 1
        env_saved = dict(st.env)
        # in `ensures`, a parameter name denotes the caller's argument (its entry value): rebinding the
        # local name inside the function is invisible to the caller
        for pname in c.params:
            if pname in self.old_state.env and not isinstance(self.old_state.env[pname], ObjRef):
                if c.kind != "lemma" and pname not in c.modifies:
                    st.env[pname] = self.old_state.env[pname]
        if c.returns is not None:
            rpt = self.tenv.parse(c.returns) if isinstance(c.returns, str) else c.returns
            if rpt.kind == "obj":
                if not isinstance(val, ObjRef):
                    raise Unsupported(f"return value {val!r} is not an object of {rpt}")
                st.env["result"] = val
            elif rpt.kind == "none":
                st.env["result"] = None
            else:
                if isinstance(val, list):
                    val = self.list_to_sv(val, rpt)
                st.env["result"] = self.ops.sv(val, rpt)
        else:
            st.env["result"] = val
        for body in getattr(c, "epilogue", []):
            for g in body:
                for nn in ast.walk(g):
                    nn.lineno = self.cur_line
            res = self.exec_block(body, st)
            if len(res) != 1:
                raise Unsupported("ghost code must be straight-line")
        for h in c.hints:
            saved_mode = self.spec_mode
            try:
                self.eval(h.node, st)
            except Unsupported as e:
                if "unknown name" not in str(e):  # a hint that mentions a local not defined on this path is skipped
                    raise
            finally:
                self.spec_mode = saved_mode
        for i, e in enumerate(c.ensures):
            if e.native_only:
                continue
            goal = self.eval_clause(e, st)
            self.oblige(st, goal, f"post/{e.name or i}", "post", text=e.text)
        # frame: parameter objects' fields not listed in modifies are unchanged
        self.check_frame(st)
        # canary / vacuity guard on every return path: the negation of the first postcondition must NOT be
        # provable (it is provable only if the hypotheses of this path are contradictory)
        first = next((e for e in c.ensures if not e.native_only), None)
        if first is not None and c.kind == "code":
            from .symex import Obligation

            goal = smt.Not(self.eval_clause(first, st))
            ob = Obligation(f"{c.target}/canary#{self.returns_seen}", st.pc, goal, "canary", text="not (" + first.text + ")", fuel=c.fuel, defs=c.defs)
            ob.expect = "not-unsat"
            self.obligations.append(ob)
        st.env = env_saved

    def check_frame(self, st: State):
        if self.old_state is None:
            return
        mods = set(self.c.modifies)
        for pname in self.c.params:
            v0 = self.old_state.env.get(pname)
            if isinstance(v0, ObjRef):
                for f, old in self.old_state.heap[v0.oid].items():
                    if f"{pname}.{f}" in mods or f"{pname}.*" in mods:
                        continue
                    new = st.heap[v0.oid][f]
                    if new is old:
                        continue
                    if isinstance(new, ObjRef) or isinstance(old, ObjRef):
                        if new != old:
                            self.oblige(st, smt.FALSE, f"frame/{pname}.{f}", "frame", text=f"{pname}.{f} is not in modifies")
                        continue
                    self.oblige(st, self.ops.eq(new, old), f"frame/{pname}.{f}", "frame", text=f"{pname}.{f} unchanged")

    # ------------------------------------------------------------------ lemma functions
    def run_lemma(self):
        """A lemma: requires/ensures + a body in the Python subset (ghost code); recursive calls = IH."""
        c = self.c
        st = State()
        self.bind_params(st)
        self.snapshot_old(st)
        for r in c.requires:
            st.assume(self.eval_clause(r, st))
        from .symex import Obligation

        cov = Obligation(f"{c.target}/cover/requires", st.pc, smt.FALSE, "cover", fuel=c.fuel, defs=c.defs)
        cov.expect = "not-unsat"
        self.obligations.append(cov)
        self.snapshot_old(st)
        body = ast.parse(_dedent(c.body or "pass")).body
        self.fn = ast.FunctionDef(name=c.target, args=None, body=body, decorator_list=[])
        self.src_sha = "lemma"
        results = self.exec_block(body, st)
        for st2, flow, val in results:
            self.check_post(st2, val)


class Flow:
    NORMAL, RETURN, BREAK, CONTINUE = range(4)


def _dedent(s):
    import textwrap

    return textwrap.dedent(s).strip() + "\n"


import pyvc.stmts as _stmts  # noqa: E402

_stmts.Flow = Flow
