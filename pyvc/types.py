"""Python-level type descriptors used by the symbolic executor and their SMT sorts."""
from __future__ import annotations
import ast
import re
from . import smt


class PT:
    """kind in: int bool ext none str ref enum opt seq arr set map rec tuple obj any"""

    __slots__ = ("kind", "args", "name")

    def __init__(self, kind, args=(), name=None):
        self.kind = kind
        self.args = tuple(args)
        self.name = name

    def __eq__(self, o):
        return isinstance(o, PT) and (self.kind, self.args, self.name) == (o.kind, o.args, o.name)

    def __hash__(self):
        return hash((self.kind, self.args, self.name))

    def __repr__(self):
        if self.kind in ("ref", "enum", "rec", "obj"):
            return f"{self.kind}:{self.name}"
        if self.args:
            return f"{self.kind}[{','.join(map(repr, self.args))}]"
        return self.kind


INT = PT("int")
BOOL = PT("bool")
EXT = PT("ext")
NONE = PT("none")
STR = PT("str")


def Ref(n):
    return PT("ref", name=n)


def Opt(t):
    return PT("opt", (t,))


def Seq(t):
    return PT("seq", (t,))


def Arr(t):
    return PT("arr", (t,))


def Set(t):
    return PT("set", (t,))


def Map(k, v):
    return PT("map", (k, v))


def Tup(*ts):
    return PT("tuple", ts)


def mangle(s: str) -> str:
    return re.sub(r"[^A-Za-z0-9]+", "_", s).strip("_")


class TypeEnv:
    """Named sorts / records / enums / classes declared by the contract files."""

    def __init__(self, ctx):
        self.ctx = ctx
        self.refs = set()
        self.enums = {}  # name -> [members]
        self.records = {}  # name -> [(field, PT)]
        self.classes = {}  # name -> {field: PT}
        self._ext_done = False

    # ---- declarations
    def declare_ref(self, name):
        self.refs.add(name)
        self.ctx.declare_sort(name)
        return Ref(name)

    def declare_enum(self, name, members):
        self.enums[name] = list(members)
        self.ctx.declare_datatype(name, [(f"{name}_{m}", []) for m in members])
        return PT("enum", name=name)

    def declare_record(self, name, fields):
        fields = [(f, self.parse(t) if isinstance(t, str) else t) for f, t in fields]
        self.records[name] = fields
        self.ctx.declare_datatype(
            name, [(f"mk_{name}", [(f"{name}_{f}", self.sort(t)) for f, t in fields])]
        )
        return PT("rec", name=name)

    def declare_class(self, name, fields):
        self.classes[name] = {f: (self.parse(t) if isinstance(t, str) else t) for f, t in fields.items()}
        return PT("obj", name=name)

    # ---- parse "Seq[Int]" style strings
    def parse(self, text: str) -> PT:
        node = ast.parse(text.strip(), mode="eval").body
        return self._parse(node)

    def _parse(self, n) -> PT:
        if isinstance(n, ast.Name):
            nm = n.id
            base = {"Int": INT, "Bool": BOOL, "Ext": EXT, "Str": STR, "NoneT": NONE, "Any": PT("any")}
            if nm in base:
                return base[nm]
            if nm in self.refs:
                return Ref(nm)
            if nm in self.enums:
                return PT("enum", name=nm)
            if nm in self.records:
                return PT("rec", name=nm)
            if nm in self.classes:
                return PT("obj", name=nm)
            raise KeyError(f"unknown type name {nm}")
        if isinstance(n, ast.Subscript):
            head = n.value.id
            sl = n.slice
            items = sl.elts if isinstance(sl, ast.Tuple) else [sl]
            args = [self._parse(i) for i in items]
            if head == "Seq":
                return Seq(*args)
            if head == "Arr":
                return Arr(*args)
            if head == "Set":
                return Set(*args)
            if head == "Opt":
                return Opt(*args)
            if head == "Map":
                return Map(*args)
            if head == "DefaultMap":  # collections.defaultdict: reading a missing key yields (and inserts) the default value
                return PT("map", tuple(args), name="default")
            if head == "Tup":
                return Tup(*args)
            raise KeyError(head)
        raise KeyError(ast.dump(n))

    # ---- SMT sorts
    def ensure_ext(self):
        if self._ext_done:
            return
        self._ext_done = True
        c = self.ctx
        c.declare_datatype("Ext", [("NInf", []), ("Fin", [("fin_v", "Int")]), ("PInf", [])])
        R = lambda s, sort: smt.Const(s, sort)
        c.define_macro(
            "ext_lt",
            [("a", "Ext"), ("b", "Ext")],
            "Bool",
            R(
                "(ite ((_ is NInf) a) (not ((_ is NInf) b)) (ite ((_ is PInf) a) false "
                "(ite ((_ is Fin) b) (< (fin_v a) (fin_v b)) ((_ is PInf) b))))",
                "Bool",
            ),
        )
        c.define_macro("ext_le", [("a", "Ext"), ("b", "Ext")], "Bool", R("(or (= a b) (ext_lt a b))", "Bool"))
        # infinity.py: inf + x = inf; x + inf = inf; inf + (-inf) -> NotImplemented -> (-inf).__radd__ = -inf
        c.define_macro(
            "ext_add",
            [("a", "Ext"), ("b", "Ext")],
            "Ext",
            R("(ite ((_ is Fin) a) (ite ((_ is Fin) b) (Fin (+ (fin_v a) (fin_v b))) b) (ite ((_ is Fin) b) a b))", "Ext"),
        )
        c.define_macro(
            "ext_sub_int",
            [("a", "Ext"), ("b", "Int")],
            "Ext",
            R("(ite ((_ is Fin) a) (Fin (- (fin_v a) b)) a)", "Ext"),
        )
        c.define_macro("ext_min", [("a", "Ext"), ("b", "Ext")], "Ext", R("(ite (ext_lt b a) b a)", "Ext"))
        c.define_macro("ext_max", [("a", "Ext"), ("b", "Ext")], "Ext", R("(ite (ext_lt a b) b a)", "Ext"))

    def sort(self, pt: PT) -> str:
        k = pt.kind
        if k == "int":
            return "Int"
        if k == "bool":
            return "Bool"
        if k == "ext":
            self.ensure_ext()
            return "Ext"
        if k == "str":
            self.ctx.declare_sort("Str")
            return "Str"
        if k == "none":
            self.ctx.declare_datatype("NoneT", [("none_v", [])])
            return "NoneT"
        if k in ("ref", "enum", "rec"):
            return pt.name
        if k == "opt":
            inner = self.sort(pt.args[0])
            name = "Opt_" + mangle(inner)
            self.ctx.declare_datatype(name, [(f"none_{name}", []), (f"some_{name}", [(f"the_{name}", inner)])])
            return name
        if k == "seq":
            return smt.SeqSort(self.sort(pt.args[0]))
        if k == "set":
            return smt.ArraySort(self.sort(pt.args[0]), "Bool")
        if k == "tuple":
            inner = [self.sort(a) for a in pt.args]
            name = "Tup_" + "_".join(mangle(i) for i in inner)
            self.ctx.declare_datatype(
                name, [(f"mk_{name}", [(f"{name}_{i}", s) for i, s in enumerate(inner)])]
            )
            return name
        if k == "arr":
            inner = self.sort(pt.args[0])
            name = "Arr_" + mangle(inner)
            self.ctx.declare_datatype(
                name, [(f"mk_{name}", [(f"{name}_len", "Int"), (f"{name}_data", smt.ArraySort("Int", inner))])]
            )
            return name
        if k == "map":
            ks, vs = self.sort(pt.args[0]), self.sort(pt.args[1])
            name = "Map_" + mangle(ks) + "__" + mangle(vs)
            self.ctx.declare_datatype(
                name,
                [(f"mk_{name}", [(f"{name}_dom", smt.ArraySort(ks, "Bool")), (f"{name}_val", smt.ArraySort(ks, vs))])],
            )
            return name
        raise KeyError(f"no SMT sort for {pt}")
