"""Run SMT solvers as sub-processes with hard time-outs; portfolio z3-new / cvc5."""
from __future__ import annotations
import hashlib
import os
import shutil
import subprocess
import tempfile
import time
from concurrent.futures import ThreadPoolExecutor

Z3 = shutil.which("z3-new") or shutil.which("z3")
CVC5 = shutil.which("cvc5")

_tmpdir = None


def tmpdir():
    global _tmpdir
    if _tmpdir is None:
        _tmpdir = tempfile.mkdtemp(prefix="pyvc-")
        import atexit

        atexit.register(lambda: shutil.rmtree(_tmpdir, ignore_errors=True))
    return _tmpdir


def _limit_cpu(seconds):
    def f():
        import resource

        # budget in CPU seconds, so that verdicts do not depend on how many other solvers share the cores
        resource.setrlimit(resource.RLIMIT_CPU, (int(seconds) + 1, int(seconds) + 1))
    return f


def _run(cmd, timeout):
    t0 = time.time()
    try:
        p = subprocess.run(cmd, capture_output=True, text=True, timeout=timeout * WALL_FACTOR + 5, preexec_fn=_limit_cpu(timeout))
        out = p.stdout.strip()
        err = p.stderr.strip()
        if p.returncode < 0 and not out:
            return "timeout", "", time.time() - t0  # killed by SIGXCPU / SIGKILL at the CPU limit
    except subprocess.TimeoutExpired:
        return "timeout", "", time.time() - t0
    first = out.splitlines()[0].strip() if out else ""
    if first not in ("sat", "unsat", "unknown", "timeout"):
        if "timeout" in out or "timeout" in err or "interrupted by timeout" in err:
            first = "timeout"
        else:
            first = "error"
            out = out + "\n" + err
    return first, out, time.time() - t0


WALL_FACTOR = 6  # wall-clock allowance per CPU second of budget (the CPU limit is what normally ends a run)


def run_z3(path, timeout):
    return _run([Z3, f"-T:{int(timeout * WALL_FACTOR)}", "smt.random_seed=1", path], timeout)


def run_cvc5(path, timeout):
    return _run(
        [CVC5, f"--tlimit={int(timeout * 1000 * WALL_FACTOR)}", "--strings-exp", "--full-saturate-quant", "--produce-models", path],
        timeout,
    )


class Result:
    def __init__(self, status, solver, time_s, output, attempts):
        self.status = status  # unsat | sat | unknown
        self.solver = solver
        self.time_s = time_s
        self.output = output
        self.attempts = attempts  # list of (solver, status, time)

    def __repr__(self):
        return f"Result({self.status},{self.solver},{self.time_s:.2f}s)"


DEFAULT_SCHEDULE = (("z3", 5), ("cvc5", 10), ("z3", 30), ("cvc5", 40))


def solve_text(text, schedule=DEFAULT_SCHEDULE, want="unsat", both=False):
    """Try the solvers in order until one answers `unsat` (or, if want='sat', `sat`)."""
    h = hashlib.sha256(text.encode()).hexdigest()[:24]
    path = os.path.join(tmpdir(), f"vc-{h}.smt2")
    with open(path, "w") as f:
        f.write(text)
    attempts = []
    sat_seen = None
    total = 0.0
    for solver, to in schedule:
        st, out, dt = (run_z3 if solver == "z3" else run_cvc5)(path, to)
        total += dt
        attempts.append((solver, st, round(dt, 3)))
        if st == "unsat":
            if both:
                continue
            return Result("unsat", solver, total, out, attempts)
        if st == "sat":
            sat_seen = (solver, out)
            if want == "sat" or not both:
                return Result("sat", solver, total, out, attempts)
    if both:
        sts = {a[1] for a in attempts}
        if "unsat" in sts and "sat" in sts:
            return Result("disagree", "both", total, "", attempts)
        if "unsat" in sts:
            return Result("unsat", "+".join(sorted({a[0] for a in attempts if a[1] == "unsat"})), total, "", attempts)
    if sat_seen:
        return Result("sat", sat_seen[0], total, sat_seen[1], attempts)
    return Result("unknown", "-", total, "", attempts)


def solve_many(texts, schedule=DEFAULT_SCHEDULE, workers=None, both=False):
    workers = workers or min(16, os.cpu_count() or 4)
    with ThreadPoolExecutor(max_workers=workers) as ex:
        return list(ex.map(lambda t: solve_text(t, schedule=schedule, both=both), texts))
