"""Native (CPython) evaluation of sidecar contracts on the real functions of the repository.

Used (a) to turn a failed obligation into a concrete failing input (replay), and (b) as the
bounded stand-in (L3).  The clause text is the same text the SMT translation reads.
"""
from __future__ import annotations
import ast
import copy
import importlib
import itertools
import sys


class _OldRewriter(ast.NodeTransformer):
    def __init__(self):
        self.depth = 0
        self.bound = []

    def visit_Lambda(self, node):
        self.bound.append({a.arg for a in node.args.args})
        self.generic_visit(node)
        self.bound.pop()
        return node

    def visit_Call(self, node):
        if isinstance(node.func, ast.Name) and node.func.id == "old" and self.depth == 0:
            self.depth += 1
            inner = self.visit(node.args[0])
            self.depth -= 1
            return inner
        if isinstance(node.func, ast.Name) and node.func.id in ("forall", "exists") and node.keywords:
            node.keywords = [k for k in node.keywords if k.arg not in ("pat", "mpat")]  # solver hints: meaningless natively
        self.generic_visit(node)
        if isinstance(node.func, ast.Name) and node.func.id == "implies" and len(node.args) == 2:
            # lazy, like the logical reading: the consequent is only evaluated when the antecedent holds
            return ast.copy_location(
                ast.BoolOp(op=ast.Or(), values=[ast.UnaryOp(op=ast.Not(), operand=node.args[0]), node.args[1]]), node)
        if isinstance(node.func, ast.Name) and node.func.id == "ite" and len(node.args) == 3:
            return ast.copy_location(ast.IfExp(test=node.args[0], body=node.args[1], orelse=node.args[2]), node)
        return node

    def visit_Name(self, node):
        if self.depth > 0 and not any(node.id in b for b in self.bound):
            return ast.copy_location(
                ast.Subscript(value=ast.Name(id="__old__", ctx=ast.Load()), slice=ast.Constant(value=node.id), ctx=ast.Load()),
                node,
            )
        return node


class _OldEnv(dict):
    def __init__(self, old, fallback):
        super().__init__(old)
        self.fallback = fallback

    def __missing__(self, k):
        return self.fallback[k]


def compile_clause(text):
    tree = ast.parse(" ".join(text.split()), mode="eval")
    tree = ast.fix_missing_locations(_OldRewriter().visit(tree))
    return compile(tree, "<contract>", "eval")


class Universe:
    """Finite domains for the quantifiers of a clause (set by the scope before evaluation)."""

    def __init__(self):
        self.domains = {}

    def forall(self, f, *doms, **kw):
        return all(f(*xs) for xs in itertools.product(*[self.domains[d] for d in doms]))

    def exists(self, f, *doms, **kw):
        return any(f(*xs) for xs in itertools.product(*[self.domains[d] for d in doms]))


class DomName:
    def __init__(self, n):
        self.n = n

    def __hash__(self):
        return hash(self.n)

    def __eq__(self, o):
        return isinstance(o, DomName) and o.n == self.n


class _DomCtor:
    def __init__(self, name):
        self.name = name

    def __getitem__(self, args):
        args = args if isinstance(args, tuple) else (args,)
        return DomName(f"{self.name}[{', '.join(a.n if isinstance(a, DomName) else str(a) for a in args)}]")


def base_namespace(engine, universe):
    import infinity

    for name, (module, attr) in getattr(engine, "native_imports", {}).items():
        engine.native_ns[name] = getattr(import_real(module, engine.src_root), attr)
    for hook in getattr(engine, "native_hooks", []):
        hook(engine.native_ns, engine.src_root)
    ns = dict(engine.native_ns)
    ns.update(
        implies=lambda a, b: (not a) or bool(b),
        iff=lambda a, b: bool(a) == bool(b),
        ite=lambda c, a, b: a if c else b,
        inf=infinity.inf,
        is_infinite=infinity.is_infinite,
        cover=lambda *a: True,
        the=lambda x: x,
        is_fin=lambda x: not infinity.is_infinite(x),
        fin=lambda x: x,
    )
    ns["forall"] = lambda f, *d, **kw: universe.forall(f, *[x.n if isinstance(x, DomName) else x for x in d])
    ns["exists"] = lambda f, *d, **kw: universe.exists(f, *[x.n if isinstance(x, DomName) else x for x in d])
    for sortname in list(engine.tenv.refs) + ["Int", "Bool"] + list(engine.tenv.enums) + list(engine.tenv.records):
        ns.setdefault(sortname, DomName(sortname))
    for ctor in ("Map", "Set", "Seq"):  # compound quantifier domains: Universe.domains["Map[Vtx, Set[Vtx]]"]
        ns.setdefault(ctor, _DomCtor(ctor))
    return ns


def import_real(module, src_root):
    """Import the repository module from src_root (fresh import when the root differs)."""
    if src_root not in sys.path:
        sys.path.insert(0, src_root)
    m = importlib.import_module(module)
    f = getattr(m, "__file__", "") or ""
    if not f.startswith(src_root):
        # an editable install points elsewhere: purge and re-import from src_root
        for k in [k for k in sys.modules if k == "superrec2" or k.startswith("superrec2.")]:
            del sys.modules[k]
        sys.path.insert(0, src_root)
        m = importlib.import_module(module)
    return m


def resolve(target, src_root):
    module, qual = target.split(":")
    obj = import_real(module, src_root)
    for part in qual.split("."):
        obj = getattr(obj, part)
    return obj


def snapshot(env):
    """Deep copy of the argument values for old(); tree nodes are identities and stay shared."""
    try:
        from ete3 import TreeNode
    except ImportError:
        return copy.deepcopy(env)
    sentinel = object()
    saved = TreeNode.__dict__.get("__deepcopy__", sentinel)
    TreeNode.__deepcopy__ = lambda self, memo: self
    try:
        return copy.deepcopy(env)
    finally:
        if saved is sentinel:
            del TreeNode.__deepcopy__
        else:
            TreeNode.__deepcopy__ = saved


class NativeResult:
    def __init__(self, status, detail=None, clause=None):
        self.status = status  # ok | skip (precondition false) | violation
        self.detail = detail
        self.clause = clause

    def __repr__(self):
        return f"NativeResult({self.status}, {self.clause}, {self.detail})"


def check_call(engine, contract, fn, args, universe=None, ns_extra=None, allow_exc=()):
    """Evaluate requires / call the real function / evaluate ensures on one concrete input.

    args: dict parameter name -> value (self included for methods).
    """
    universe = universe or Universe()
    ns = base_namespace(engine, universe)
    if ns_extra:
        ns.update(ns_extra)
    names = [n for n in contract.params if n not in contract.ghost]
    env = dict(args)
    for r in contract.requires:
        if r.smt_only:
            continue
        try:
            if not eval(compile_clause(r.text), {**ns, **env}):
                return NativeResult("skip", clause=r.text)
        except Exception as e:  # ill-formed input for this precondition
            return NativeResult("skip", detail=f"{type(e).__name__}: {e}", clause=r.text)
    old = snapshot(env)
    try:
        pos = [env[n] for n in names if n != contract.vararg]
        if contract.vararg:
            pos += list(env[contract.vararg])
        result = fn(*pos)
    except allow_exc as e:
        return NativeResult("ok", detail=f"allowed {type(e).__name__}")
    except Exception as e:
        ok = False
        for exc_name, cond in contract.raises:
            if type(e).__name__ == exc_name and eval(compile_clause(cond), {**ns, **old}):
                ok = True
        if ok:
            return NativeResult("ok", detail=f"raised {type(e).__name__} as allowed")
        return NativeResult("violation", detail=f"raised {type(e).__name__}: {e}", clause="no exception")
    post_env = dict(old)  # parameter names denote the entry values ...
    for n in names:  # ... except objects (mutated in place) and declared by-reference containers
        if n in contract.modifies or hasattr(env[n], "__dict__"):
            post_env[n] = env[n]
    for n in names:  # the argument objects themselves (for ownership / aliasing clauses)
        post_env[n + "__now"] = env[n]
    post_env["result"] = result
    post_env["__old__"] = _OldEnv(old, post_env)
    for e in contract.ensures:
        if e.smt_only:
            continue
        try:
            ok = eval(compile_clause(e.text), {**ns, **post_env})
        except RecursionError:
            raise
        except Exception as ex:
            raise RuntimeError(f"contract clause could not be evaluated natively: {e.text}: {type(ex).__name__}: {ex}") from ex
        if not ok:
            return NativeResult("violation", detail=f"result={result!r}", clause=e.text)
    return NativeResult("ok")
