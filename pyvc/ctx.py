"""Declaration context: sorts, datatypes, functions, macros, axioms, spec definitions; VC text."""
from __future__ import annotations
from . import smt
from .smt import Term


class SpecDef:
    """A (possibly recursive) spec function: uninterpreted symbol + definitional equation."""

    def __init__(self, name, params, ressort, body):
        self.name = name
        self.params = params  # list of (name, sort)
        self.ressort = ressort
        self.body = body  # Term over #var params, or None (uninterpreted)
        self.facts = []  # [(name, Term over params)] assumed/proved facts instantiated like the definition


class Ctx:
    def __init__(self):
        self.sorts = []  # uninterpreted sorts
        self.datatypes = {}  # name -> [(ctor, [(field, sort)])]
        self.dt_order = []
        self.funcs = {}  # name -> (argsorts, ressort)
        self.heavy_axioms = set()
        self.macros = {}  # name -> (params, ressort, body)  (define-fun, non recursive)
        self.macro_order = []
        self.axioms = []  # (name, Term)
        self.specs = {}  # name -> SpecDef
        self.consts = {}  # name -> sort  (declared constants)
        self._ufuncs = []
        self.axiom_keys = {}

    # ---- declarations
    def declare_sort(self, name):
        if name not in self.sorts:
            self.sorts.append(name)
        return name

    def declare_datatype(self, name, ctors):
        if name in self.datatypes:
            assert self.datatypes[name] == ctors, (name, ctors, self.datatypes[name])
            return name
        self.datatypes[name] = ctors
        self.dt_order.append(name)
        for cname, fields in ctors:
            self.funcs[cname] = ([s for _, s in fields], name)
            for f, s in fields:
                self.funcs[f] = ([name], s)
        return name

    def declare_fun(self, name, argsorts, ressort):
        if name in self.funcs:
            assert self.funcs[name] == (list(argsorts), ressort), (name, self.funcs[name], argsorts, ressort)
        else:
            self.funcs[name] = (list(argsorts), ressort)
            self._ufuncs.append(name)
        return name

    def define_macro(self, name, params, ressort, body):
        if name not in self.macros:
            self.macro_order.append(name)
        self.macros[name] = (params, ressort, body)
        self.funcs[name] = ([s for _, s in params], ressort)

    def add_axiom(self, name, term, keys=None):
        """keys: the axiom is only emitted into VCs that mention one of these symbols (relevance filter)."""
        self.axioms.append((name, term))
        if keys:
            self.axiom_keys[name] = list(keys)

    def fresh_const(self, base, sort):
        name = smt.fresh_name(base)
        self.consts[name] = sort
        return smt.Const(name, sort)

    def named_const(self, name, sort):
        if name in self.consts:
            assert self.consts[name] == sort, (name, sort, self.consts[name])
        self.consts[name] = sort
        return smt.Const(name, sort)

    def app(self, fname, *args):
        argsorts, ressort = self.funcs[fname]
        assert len(args) == len(argsorts), (fname, args, argsorts)
        for a, s in zip(args, argsorts):
            assert a.sort == s, (fname, str(a), a.sort, s)
        return smt.App(fname, args, ressort)

    def define_spec(self, name, params, ressort, body):
        self.specs[name] = SpecDef(name, params, ressort, body)
        self.declare_fun(name, [s for _, s in params], ressort)

    # ---- definitional instances (explicit unfolding, no define-fun-rec)
    def spec_instances(self, terms, fuel=2, limit=4000):
        """Ground instances f(t...) = body[t...] for applications occurring in `terms`."""
        seen = set()
        out = []
        frontier = list(terms)
        for _ in range(fuel):
            new_terms = []
            for t in frontier:
                for x, bound in smt.subterms(t):
                    if x.op in self.specs and (self.specs[x.op].body is not None or self.specs[x.op].facts):
                        key = str(x)
                        if key in seen:
                            continue
                        if bound and _mentions(x, bound):
                            continue
                        seen.add(key)
                        sd = self.specs[x.op]
                        mapping = {p: a for (p, _), a in zip(sd.params, x.args)}
                        if sd.body is not None:
                            inst = smt.substitute(sd.body, mapping)
                            out.append(smt.Eq(x, inst))
                            new_terms.append(inst)
                        for _, fact in sd.facts:
                            fi = smt.substitute(fact, mapping)
                            out.append(fi)
                            new_terms.append(fi)
                        if len(out) > limit:
                            return out
            frontier = new_terms
            if not frontier:
                break
        return out

    def spec_axioms(self, names=None):
        """Quantified definitional axioms (with the application as pattern)."""
        out = []
        for name, sd in self.specs.items():
            if (sd.body is None and not sd.facts) or (names is not None and name not in names):
                continue
            vs = [smt.Var(p, s) for p, s in sd.params]
            app = smt.App(name, vs, sd.ressort)
            forms = ([smt.Eq(app, sd.body)] if sd.body is not None else []) + [f for _, f in sd.facts]
            for form in forms:
                if not vs:
                    out.append(form)
                else:
                    out.append(smt.Forall(sd.params, form, patterns=((app,),)))
        return out

    # ---- SMT text
    def preamble(self, used_consts=None, nl="exact", ab=None):
        S = (lambda x: x) if ab is None else ab.sort
        lines = ["(set-logic ALL)"]
        if nl == "exact":
            lines.append("(define-fun nlmul ((a Int) (b Int)) Int (* a b))")
        else:
            lines.append("(declare-fun nlmul (Int Int) Int)")
            lines.append("(assert (forall ((a Int) (b Int)) (! (= (nlmul a b) (nlmul b a)) :pattern ((nlmul a b)))))")
            lines.append("(assert (forall ((a Int) (b Int)) (! (=> (and (>= a 0) (>= b 0)) (>= (nlmul a b) 0)) :pattern ((nlmul a b)))))")
            lines.append("(assert (forall ((a Int) (b Int)) (! (=> (or (= a 0) (= b 0)) (= (nlmul a b) 0)) :pattern ((nlmul a b)))))")
        for s in self.sorts:
            lines.append(f"(declare-sort {s} 0)")
        if ab is not None:
            lines.append("; SEQ-ABSTRACT-SORTS")
        for name in self.dt_order:
            ctors = self.datatypes[name]
            cs = " ".join(
                "(" + c + "".join(f" ({f} {S(s)})" for f, s in fields) + ")" for c, fields in ctors
            )
            lines.append(f"(declare-datatypes (({name} 0)) (({cs})))")
        for name in self._ufuncs:
            argsorts, ressort = self.funcs[name]
            lines.append(f"(declare-fun {name} ({' '.join(S(a) for a in argsorts)}) {S(ressort)})")
        for name in self.macro_order:
            params, ressort, body = self.macros[name]
            ps = " ".join(f"({p} {S(s)})" for p, s in params)
            lines.append(f"(define-fun {name} ({ps}) {S(ressort)} {body})")
        for name, sort in list(self.consts.items()):
            if used_consts is None or name in used_consts:
                lines.append(f"(declare-const {name} {S(sort)})")
        return lines

    def vc_text(self, hyps, goal, defs="both", fuel=2, get_values=(), extra_axioms=True, nl="exact", seq="real", keep=None):
        """SMT-LIB text whose unsatisfiability proves  /\\ hyps => goal.  keep: optional predicate selecting hypotheses (dropping is sound)."""
        if keep is not None:
            hyps = [h for h in hyps if keep(h)]
        # skolemise the goal:  H |- (A => forall x. B)   becomes   H, A |- B[x0]   (equivalent; makes the goal's spec-function
        # applications ground, so that the definitional instances of the ground stage cover them)
        hyps = list(hyps)
        sk_consts = {}
        for _ in range(8):
            if goal.op == "=>" and len(goal.args) == 2:
                hyps.append(goal.args[0])
                goal = goal.args[1]
            elif goal.op == "forall":
                mapping = {}
                for n, srt in goal.binders:
                    # local to this VC text (vc_text runs concurrently: the shared declaration table is not touched)
                    cname = "sk_" + n.replace("!", "_")
                    mapping[n] = smt.Const(cname, srt)
                    sk_consts[cname] = srt
                goal = smt.substitute(goal.args[0], mapping)
            else:
                break
        body_terms = list(hyps) + [goal]
        axioms = list(self.axioms) if extra_axioms else []
        if extra_axioms == "light":
            # portfolio stage: without the axioms known to make E-matching explode (transitivity etc.); dropping axioms is sound
            axioms = [(n, t) for n, t in axioms if n not in self.heavy_axioms]
        if axioms:
            # relevance filter (dropping an axiom is always sound): an axiom is emitted only if the VC (or an axiom already
            # kept) mentions one of its keys; the default keys of an axiom are the declared function symbols it mentions
            symbols = set()
            for t in body_terms:
                for x, _ in smt.subterms(t):
                    symbols.add(x.op)
            keys_of = {}
            syms_of = {}
            for n, t in axioms:
                ops_ = {x.op for x, _ in smt.subterms(t)}
                syms_of[n] = ops_
                keys_of[n] = self.axiom_keys.get(n) or [o for o in ops_ if o in self._ufuncs]
            kept = axioms
            for _ in range(12):
                kept = [(n, t) for n, t in axioms if not keys_of[n] or any(k in symbols for k in keys_of[n])]
                before = len(symbols)
                for n, t in kept:
                    symbols |= syms_of[n]
                if len(symbols) == before:
                    break
            axioms = kept
        ax_terms = [t for _, t in axioms]
        inst = []
        if defs in ("ground", "both"):
            inst = self.spec_instances(body_terms + ax_terms, fuel=fuel)
        quant = []
        if defs in ("quant", "both"):
            # only the spec functions the VC (or a kept axiom, or the body of a needed spec) can mention; dropping a definition is sound
            needed = set()
            work = [t for t in body_terms + ax_terms]
            while work:
                t = work.pop()
                for x, _ in smt.subterms(t):
                    if x.op in self.specs and x.op not in needed:
                        needed.add(x.op)
                        sd = self.specs[x.op]
                        if sd.body is not None:
                            work.append(sd.body)
                        for _, fct in sd.facts:
                            work.append(fct)
            quant = self.spec_axioms(names=needed)
        used = set()
        for t in body_terms + ax_terms + inst + quant + list(get_values):
            used.update(smt.free_consts(t))
        ab = smt.SeqAbstraction() if seq == "abstract" else None
        R = str if ab is None else ab.render
        lines = self.preamble(used, nl=nl, ab=ab)
        for cname, srt in sk_consts.items():
            lines.append(f"(declare-const {cname} {srt if ab is None else ab.sort(srt)})")
        body = []
        for name, t in axioms:
            body.append(f"; axiom {name}")
            body.append(f"(assert {R(t)})")
        for t in quant:
            body.append(f"(assert {R(t)})")
        for t in inst:
            body.append(f"(assert {R(t)})")
        for h in hyps:
            body.append(f"(assert {R(h)})")
        body.append(f"(assert (not {R(goal)}))")
        if ab is not None:
            # abstract sorts are declared before the datatypes (fields may hold sequences), their functions after everything else
            k = lines.index("; SEQ-ABSTRACT-SORTS")
            lines[k:k + 1] = [f"(declare-sort {x} 0)" for x in sorted(ab.sorts)]
            lines += ab.declarations()
        lines += body
        lines.append("(check-sat)")
        if get_values:
            lines.append("(get-value (" + " ".join(R(v) for v in get_values) + "))")
        return "\n".join(lines) + "\n"


def _mentions(t: Term, names):
    for x, _ in smt.subterms(t):
        if x.op == "#var" and x.args[0] in names:
            return True
    return False
