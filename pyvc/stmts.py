"""Statements, places, loops."""
from __future__ import annotations
import ast

from . import smt
from .types import PT, INT, BOOL, EXT, NONE, STR, Opt, Seq, Set, Arr, Map, Tup
from .values import (
    SV,
    ObjRef,
    View,
    EnumVal,
    EnumClass,
    RecordClass,
    ObjClass,
    Closure,
    SpecFun,
    Builtin,
    BoundMethod,
    UFun,
    Unsupported,
)
from .state import State
from .contracts import Clause, LoopSpec

Flow = None  # set by fnexec


class IterSpec:
    def __init__(self, length=None, elem=None, facts=(), concrete=None):
        self.length = length  # Term (Int)
        self.elem = elem  # callable(Term k) -> value
        self.facts = list(facts)
        self.concrete = concrete


class StmtMixin:
    # ------------------------------------------------------------------ blocks
    def exec_block(self, stmts, st):
        """Returns list of (state, flow, value)."""
        live = [st]
        done = []
        for s in stmts:
            nxt = []
            for cur in live:
                for st2, flow, val in self.exec_stmt(s, cur):
                    if flow == Flow.NORMAL:
                        nxt.append(st2)
                    else:
                        done.append((st2, flow, val))
            live = nxt
            self.paths_explored += len(live)
            if len(live) + len(done) > self.max_paths:
                raise Unsupported("path explosion")
            if not live:
                break
        return [(s, Flow.NORMAL, None) for s in live] + done

    def exec_stmt(self, s, st):
        self.cur_line = getattr(s, "lineno", self.cur_line)
        self._idx_cache = {}
        m = getattr(self, "st_" + type(s).__name__, None)
        if m is None:
            raise Unsupported(f"statement {type(s).__name__} (line {self.cur_line})")
        from .values import TypeMismatch

        if self.c is not None and self.c.at and not self.spec_mode:
            src = " ".join(ast.unparse(s).split())
            for key, ghosts in self.c.at.items():
                if src.startswith(key) and not getattr(s, "_ghost_done", False):
                    line = self.cur_line
                    for body in ghosts:
                        for g in body:
                            for n in ast.walk(g):
                                n.lineno = line
                        res = self.exec_block(body, st)
                        if len(res) != 1 or res[0][1] != Flow.NORMAL:
                            raise Unsupported("ghost code must be straight-line (use if-expressions)")
                        st = res[0][0]
                    self.cur_line = line
        try:
            res = m(s, st)
            if self.c is not None and getattr(self.c, "after", None) and not self.spec_mode:
                src = " ".join(ast.unparse(s).split())
                for key, ghosts in self.c.after.items():
                    if src.startswith(key):
                        out = []
                        for st2, flow, val in res:
                            if flow == Flow.NORMAL:
                                line = self.cur_line
                                for body in ghosts:
                                    for g in body:
                                        for n in ast.walk(g):
                                            n.lineno = line
                                    r2 = self.exec_block(body, st2)
                                    if len(r2) != 1 or r2[0][1] != Flow.NORMAL:
                                        raise Unsupported("ghost code must be straight-line (use if-expressions)")
                                    st2 = r2[0][0]
                                self.cur_line = line
                            out.append((st2, flow, val))
                        res = out
            return res
        except TypeMismatch as e:
            # a value of the wrong type reaches this statement: only acceptable on an infeasible path
            self.oblige(st, smt.FALSE, f"type@L{self.cur_line}", "safety", text=f"path is infeasible ({e})")
            return []

    def feasible(self, st, cond):
        return cond.op != "false"

    # ------------------------------------------------------------------ simple statements
    def st_Pass(self, s, st):
        return [(st, Flow.NORMAL, None)]

    def st_Expr(self, s, st):
        if isinstance(s.value, ast.Constant):
            return [(st, Flow.NORMAL, None)]  # docstring (dropped)
        if isinstance(s.value, ast.Yield):
            rpt = self.return_type()
            if rpt is None or rpt.kind != "seq":
                raise Unsupported("generator needs a Seq[...] return type in its contract")
            v = self.eval(s.value.value, st, rpt.args[0])
            cur = st.env.get("__yielded__") or SV(smt.SeqEmpty(self.tenv.sort(rpt.args[0])), rpt)
            st.set_var("__yielded__", SV(smt.SeqConcat(cur.term, smt.SeqUnit(self.ops.term(v, rpt.args[0]))), rpt))
            return [(st, Flow.NORMAL, None)]
        self.eval(s.value, st)
        return [(st, Flow.NORMAL, None)]

    def st_Assign(self, s, st):
        want = None
        if len(s.targets) == 1 and isinstance(s.targets[0], ast.Name):
            want = self.declared_local(s.targets[0].id)
        if (
            len(s.targets) == 1
            and isinstance(s.targets[0], ast.Attribute)
            and isinstance(s.value, ast.Attribute)
            and isinstance(s.value.value, ast.Name)
            and s.targets[0].attr == "__doc__"
        ):
            return [(st, Flow.NORMAL, None)]  # X.__doc__ = ... (dropped)
        if want is None and len(s.targets) == 1:
            want = self.place_type(s.targets[0], st)
        v = self.eval(s.value, st, want)
        for t in s.targets:
            self.assign_target(t, v, st)
        return [(st, Flow.NORMAL, None)]

    def st_AnnAssign(self, s, st):
        if s.value is None:
            return [(st, Flow.NORMAL, None)]
        want = self.declared_local(s.target.id) if isinstance(s.target, ast.Name) else self.place_type(s.target, st)
        v = self.eval(s.value, st, want)
        self.assign_target(s.target, v, st)
        return [(st, Flow.NORMAL, None)]

    def st_AugAssign(self, s, st):
        cur = self.eval(_as_load(s.target), st)
        rhs = self.eval(s.value, st)
        new = self.binop(s.op, cur, rhs, st)
        inplace = isinstance(cur, SV) and cur.pt.kind in ("set", "seq", "arr", "map")
        self.store_place(s.target, new, st, inplace=inplace)
        return [(st, Flow.NORMAL, None)]

    def declared_local(self, name):
        if self.c is not None and name in self.c.locals:
            return self.tenv.parse(self.c.locals[name])
        return None

    def place_type(self, target, st):
        """Static type of an existing place (so that literals get the right sort)."""
        try:
            if isinstance(target, ast.Attribute):
                saved = self.spec_mode
                self.spec_mode = True
                try:
                    base = self.eval(target.value, st)
                finally:
                    self.spec_mode = saved
                if isinstance(base, ObjRef):
                    return self.tenv.classes[base.cls].get(target.attr)
            if isinstance(target, ast.Name) and target.id in st.env:
                v = st.env[target.id]
                if isinstance(v, SV):
                    return v.pt
            if isinstance(target, ast.Subscript):
                saved = self.spec_mode
                self.spec_mode = True
                try:
                    base = self.eval(target.value, st)
                finally:
                    self.spec_mode = saved
                if isinstance(base, SV) and base.pt.kind in ("arr", "seq"):
                    return base.pt.args[0]
                if isinstance(base, SV) and base.pt.kind == "map":
                    return base.pt.args[1]
        except Unsupported:
            return None
        return None

    def assign_target(self, t, v, st):
        if isinstance(t, ast.Name):
            want = self.declared_local(t.id)
            if want is not None and not isinstance(v, (ObjRef, Closure)):
                if isinstance(v, list):
                    v = self.list_to_sv(v, want)
                elif isinstance(v, tuple) and v and v[0] == "#emptyset":
                    v = self.set_of([], want)
                elif isinstance(v, dict) and not v and want.kind == "map":
                    v = self.empty_map(want)
                else:
                    v = self.ops.sv(v, want)
            elif isinstance(v, list) and not isinstance(v, SV):
                v = list(v)
            st.set_var(t.id, v)
            return
        if isinstance(t, (ast.Tuple, ast.List)):
            items = self.unpack(v, len(t.elts), st)
            for e, x in zip(t.elts, items):
                self.assign_target(e, x, st)
            return
        if isinstance(t, (ast.Attribute, ast.Subscript)):
            self.store_place(t, v, st)
            return
        raise Unsupported(f"assignment target {type(t).__name__}")

    def empty_map(self, mpt):
        ks, vs = self.tenv.sort(mpt.args[0]), self.tenv.sort(mpt.args[1])
        dom = smt.ConstArray(smt.ArraySort(ks, "Bool"), smt.FALSE)
        val = self.ctx.fresh_const("mapval0", smt.ArraySort(ks, vs))
        if mpt.name == "default" and mpt.args[1].kind == "set":
            # defaultdict(set): every key not written yet reads as the empty set
            es = self.tenv.sort(mpt.args[1].args[0])
            val = smt.ConstArray(smt.ArraySort(ks, vs), smt.ConstArray(smt.ArraySort(es, "Bool"), smt.FALSE))
        return self.ops.mk_map(mpt, dom, val)

    def unpack(self, v, n, st):
        if isinstance(v, (tuple, list)):
            if len(v) != n:
                self.safety(st, smt.FALSE, f"unpack arity {n}")
                raise Unsupported("unpack arity mismatch")
            return list(v)
        if isinstance(v, SV) and v.pt.kind == "tuple":
            if len(v.pt.args) != n:
                self.safety(st, smt.FALSE, f"unpack arity {n}")
                raise Unsupported("unpack arity mismatch")
            return [self.ops.tuple_item(v, i) for i in range(n)]
        if isinstance(v, SV) and v.pt.kind == "rec":
            fs = self.tenv.records[v.pt.name]
            if len(fs) != n:
                raise Unsupported("unpack arity mismatch")
            return [self.ops.rec_field(v, f) for f, _ in fs]
        if isinstance(v, SV) and v.pt.kind == "seq":
            self.safety(st, smt.Eq(smt.SeqLen(v.term), smt.Int(n)), f"unpack arity {n}")
            return [SV(smt.SeqNth(v.term, smt.Int(i)), v.pt.args[0]) for i in range(n)]
        raise Unsupported(f"unpack of {v!r}")

    def store_place(self, place, new, st, inplace=False):
        """Write `new` into the place denoted by AST `place` (Name / obj.attr / container[idx])."""
        ops = self.ops
        if place is None:
            raise Unsupported("mutation of a temporary")
        if isinstance(place, ast.Name):
            if inplace and place.id in self.c.params and place.id not in self.c.modifies and not self.spec_mode:
                # in-place mutation of a container owned by the caller
                old = self.old_state.env.get(place.id) if self.old_state else None
                self.oblige(st, smt.FALSE, f"frame/{place.id}@L{self.cur_line}", "frame", text=f"in-place mutation of parameter {place.id} (not in modifies)")
            want = self.declared_local(place.id)
            if want is not None:
                new = self.ops.sv(new, want)
            st.set_var(place.id, new)
            return
        if isinstance(place, ast.Attribute):
            base = self.eval(place.value, st)
            if isinstance(base, ObjRef):
                fpt = self.tenv.classes[base.cls].get(place.attr)
                if fpt is None:
                    raise Unsupported(f"class {base.cls} has no declared field {place.attr}")
                if fpt.kind == "obj":
                    if not isinstance(new, ObjRef):
                        raise Unsupported("object field assigned a non-object")
                elif isinstance(new, list):
                    new = self.list_to_sv(new, fpt)
                elif isinstance(new, tuple) and new and new[0] == "#emptyset":
                    new = self.set_of([], fpt)
                elif isinstance(new, dict) and not new and fpt.kind == "map":
                    new = self.empty_map(fpt)
                else:
                    new = ops.sv(new, fpt)
                st.set_field(base, place.attr, new)
                return
            raise Unsupported(f"attribute store on {base!r}")
        if isinstance(place, ast.Subscript):
            base = self.eval(place.value, st)
            idx = self._idx_cache[id(place.slice)] if id(place.slice) in self._idx_cache else self.eval(place.slice, st)
            if isinstance(base, View) or (isinstance(base, ObjRef) and base.cls in getattr(self.E, "view_classes", ())):
                view = View(base.obj, base.keys + (idx,)) if isinstance(base, View) else View(base, (idx,))
                self.call_method(view, "set", [new], {}, st, None)
                return
            if isinstance(base, ObjRef):
                self.call_method(base, "__setitem__", [idx, new], {}, st, None)
                return
            if isinstance(base, list) and isinstance(idx, int):
                base[idx] = new
                return
            if isinstance(base, dict):
                base[idx] = new
                return
            if isinstance(base, SV) and base.pt.kind == "arr":
                it = ops.term(idx, INT)
                self.safety(st, smt.And(smt.Le(smt.Int(0), it), smt.Lt(it, ops.arr_len(base))), "list store index in range (non-negative)")
                ept = base.pt.args[0]
                if isinstance(new, list):
                    new = self.list_to_sv(new, ept)
                upd = ops.mk_arr(base.pt, ops.arr_len(base), smt.Store(ops.arr_data(base), it, ops.term(new, ept)))
                self.store_place(place.value, upd, st, inplace=True)
                return
            if isinstance(base, SV) and base.pt.kind == "map":
                kt = ops.term(idx, base.pt.args[0])
                vpt = base.pt.args[1]
                if isinstance(new, tuple) and new and new[0] == "#emptyset":
                    new = self.set_of([], vpt)
                upd = ops.mk_map(base.pt, smt.Store(ops.map_dom(base), kt, smt.TRUE), smt.Store(ops.map_val(base), kt, ops.term(new, vpt)))
                self.store_place(place.value, upd, st, inplace=True)
                return
            raise Unsupported(f"subscript store on {base!r}")
        raise Unsupported(f"store into {type(place).__name__}")

    # ------------------------------------------------------------------ control flow
    def st_If(self, s, st):
        c = self.ops.truthy(self.eval(s.test, st))
        out = []
        if c.op != "false":
            a = st if c.op == "true" else st.fork()
            a.assume(c)
            tt = s.test
            if (isinstance(tt, ast.Compare) and len(tt.ops) == 1 and isinstance(tt.ops[0], ast.IsNot) and isinstance(tt.left, ast.Name)
                    and isinstance(tt.comparators[0], ast.Constant) and tt.comparators[0].value is None):
                v = a.env.get(tt.left.id)
                if isinstance(v, SV) and v.pt.kind == "opt":
                    a.env[tt.left.id] = self.ops.opt_the(v)  # `if x is not None:` narrows Optional[T] to T in the branch
            out += self.exec_block(s.body, a)
        if c.op != "true":
            b = st if c.op == "false" else st.fork()
            b.assume(smt.Not(c))
            out += self.exec_block(s.orelse, b) if s.orelse else [(b, Flow.NORMAL, None)]
        return out

    def st_Return(self, s, st):
        v = self.eval(s.value, st, self.return_type()) if s.value is not None else None
        return [(st, Flow.RETURN, v)]

    def return_type(self):
        if self.c is not None and self.c.returns is not None:
            r = self.c.returns
            return self.tenv.parse(r) if isinstance(r, str) else r
        return None

    def st_Break(self, s, st):
        return [(st, Flow.BREAK, None)]

    def st_Continue(self, s, st):
        return [(st, Flow.CONTINUE, None)]

    def st_Assert(self, s, st):
        saved = self.spec_mode
        t = self.ops.truthy(self.eval(s.test, st))
        self.oblige(st, t, f"assert@L{self.cur_line}", "assert", text=ast.unparse(s.test))
        st.assume(t)
        self.E.hyp_origin[str(t)] = "cut"
        # `assert x is not None` narrows Optional[T] to T (as a type checker would)
        tt = s.test
        if (isinstance(tt, ast.Compare) and len(tt.ops) == 1 and isinstance(tt.ops[0], ast.IsNot) and isinstance(tt.left, ast.Name)
                and isinstance(tt.comparators[0], ast.Constant) and tt.comparators[0].value is None):
            v = st.env.get(tt.left.id)
            if isinstance(v, SV) and v.pt.kind == "opt":
                st.set_var(tt.left.id, self.ops.opt_the(v))
        return [(st, Flow.NORMAL, None)]

    def st_Raise(self, s, st):
        exc = ast.unparse(s.exc) if s.exc is not None else "re-raise"
        allowed = smt.FALSE
        for name, cond in self.c.raises:
            if exc.startswith(name):
                cl = Clause(cond)
                ost = self.old_state.fork()
                allowed = smt.Or(allowed, self.eval_clause(cl, ost))
        self.oblige(st, allowed, f"raise@L{self.cur_line}", "safety", text=f"raise {exc} only when the contract allows it")
        return []

    def st_FunctionDef(self, s, st):
        st.set_var(s.name, Closure(s, st.env, s.name))
        return [(st, Flow.NORMAL, None)]

    # ------------------------------------------------------------------ loops
    def loop_spec(self, s):
        ordinal = self.loop_ordinal(s)
        spec = self.c.loops.get(ordinal) if self.c else None
        header = ast.unparse(s).split("\n")[0].rstrip(":")
        from .contracts import norm_header

        if spec is not None and spec.header is not None and norm_header(header) != spec.header:
            raise Unsupported(f"binding drift: loop {ordinal} header is '{header}', contract expects '{spec.header}'")
        return ordinal, spec

    def loop_ordinal(self, s):
        loops = [n for n in ast.walk(self.fn) if isinstance(n, (ast.For, ast.While))]
        loops.sort(key=lambda n: (n.lineno, n.col_offset))
        for i, n in enumerate(loops):
            if n is s:
                return i
        for i, n in enumerate(loops):
            if (n.lineno, n.col_offset) == (s.lineno, s.col_offset):
                return i
        raise Unsupported("loop not found")

    def iter_spec(self, itv, st, spec) -> IterSpec:
        ops = self.ops
        if isinstance(itv, range):
            return IterSpec(concrete=list(itv))
        if isinstance(itv, (list,)):
            return IterSpec(concrete=list(itv))
        if isinstance(itv, EnumClass):
            return IterSpec(concrete=[EnumVal(itv.name, m) for m in itv.members])
        if isinstance(itv, dict):
            return IterSpec(concrete=list(itv.keys()))
        if isinstance(itv, tuple):
            if itv and isinstance(itv[0], str) and itv[0].startswith("#"):
                tag = itv[0]
                if tag == "#range":
                    a = itv[1:]
                    lo, hi = (smt.Int(0), ops.term(a[0], INT)) if len(a) == 1 else (ops.term(a[0], INT), ops.term(a[1], INT))
                    if len(a) > 2:
                        raise Unsupported("range with step")
                    n = smt.Ite(smt.Gt(smt.Sub(hi, lo), smt.Int(0)), smt.Sub(hi, lo), smt.Int(0))
                    if n.op == "#int" and lo.op == "#int" and n.args[0] <= 8 and spec is None:
                        return IterSpec(concrete=list(range(lo.args[0], lo.args[0] + n.args[0])))
                    return IterSpec(length=n, elem=lambda k: SV(smt.Add(lo, k), INT))
                if tag == "#enumerate":
                    inner = self.iter_spec(itv[1], st, spec)
                    if inner.concrete is not None:
                        return IterSpec(concrete=[(i, x) for i, x in enumerate(inner.concrete)])
                    return IterSpec(length=inner.length, elem=lambda k: (SV(k, INT), inner.elem(k)), facts=inner.facts)
                if tag == "#zip":
                    inners = [self.iter_spec(x, st, spec) for x in itv[1:]]
                    if all(i.concrete is not None for i in inners):
                        return IterSpec(concrete=list(zip(*[i.concrete for i in inners])))
                    if any(i.concrete is not None for i in inners):
                        raise Unsupported("zip of static and symbolic iterables")
                    n = inners[0].length
                    for i in inners[1:]:
                        n = smt.Ite(smt.Lt(i.length, n), i.length, n)
                    return IterSpec(length=n, elem=lambda k: tuple(i.elem(k) for i in inners), facts=[f for i in inners for f in i.facts])
                if tag == "#product":
                    return self.product_iter(itv[1:], st, spec)
                if tag == "#traverse":
                    return self.traverse_iter(itv[1], itv[2], st)
                if tag == "#mapkeys":
                    return self.set_iter(SV(ops.map_dom(itv[1]), Set(itv[1].pt.args[0])), st, spec)
                if tag == "#mapitems":
                    m = itv[1]
                    ks = self.set_iter(SV(ops.map_dom(m), Set(m.pt.args[0])), st, spec)
                    it = IterSpec(
                        length=ks.length,
                        elem=lambda k: (ks.elem(k), SV(smt.Select(ops.map_val(m), ks.elem(k).term), m.pt.args[1])),
                        facts=ks.facts,
                    )
                    it.idx_name, it.elem_pt, it.key_elem = ks.idx_name, ks.elem_pt, ks.elem
                    return it
                if tag == "#mapvalues":
                    m = itv[1]
                    ks = self.set_iter(SV(ops.map_dom(m), Set(m.pt.args[0])), st, spec)
                    it = IterSpec(length=ks.length, elem=lambda k: SV(smt.Select(ops.map_val(m), ks.elem(k).term), m.pt.args[1]), facts=ks.facts)
                    # the enumeration is an enumeration of the KEYS: invariants see it as <seq>_key(i) / <seq>_idx(key)
                    it.idx_name, it.elem_pt, it.key_elem = ks.idx_name, ks.elem_pt, ks.elem
                    return it
                raise Unsupported(f"iteration over {tag}")
            return IterSpec(concrete=list(itv))
        if isinstance(itv, SV):
            k = itv.pt.kind
            if k == "seq":
                return IterSpec(length=smt.SeqLen(itv.term), elem=lambda i: SV(smt.SeqNth(itv.term, i), itv.pt.args[0]))
            if k == "arr":
                return IterSpec(length=ops.arr_len(itv), elem=lambda i: SV(smt.Select(ops.arr_data(itv), i), itv.pt.args[0]))
            if k == "set":
                return self.set_iter(itv, st, spec)
            if k == "map":
                return self.set_iter(SV(ops.map_dom(itv), Set(itv.pt.args[0])), st, spec)
        if isinstance(itv, ObjRef):
            c = self.find_method_contract(itv.cls, "__iter__")
            if c is not None:
                r = self.apply_contract(c, itv, [], {}, st, None)
                return self.iter_spec(r, st, spec)
        raise Unsupported(f"iteration over {itv!r}")

    def set_iter(self, sv, st, spec) -> IterSpec:
        """Arbitrary duplicate-free enumeration of a set: enum : [0,n) -> members, idx its inverse."""
        ept = sv.pt.args[0]
        es = self.tenv.sort(ept)
        tag = smt.fresh_name("en")
        en = f"enum_{tag}"
        ix = f"idx_{tag}"
        self.ctx.declare_fun(en, ["Int"], es)
        self.ctx.declare_fun(ix, [es], "Int")
        n = self.ctx.fresh_const("n_" + tag, "Int")
        i = smt.Var(smt.fresh_name("i"), "Int")
        e = smt.Var(smt.fresh_name("e"), es)
        eni = self.ctx.app(en, i)
        ixe = self.ctx.app(ix, e)
        facts = [
            smt.Ge(n, smt.Int(0)),
            smt.Forall(
                [(i.args[0], "Int")],
                smt.Implies(smt.And(smt.Le(smt.Int(0), i), smt.Lt(i, n)), smt.And(smt.Select(sv.term, eni), smt.Eq(self.ctx.app(ix, eni), i))),
                patterns=((eni,),),
            ),
            smt.Forall(
                [(e.args[0], es)],
                smt.Implies(smt.Select(sv.term, e), smt.And(smt.Le(smt.Int(0), ixe), smt.Lt(ixe, n), smt.Eq(self.ctx.app(en, ixe), e))),
                patterns=((ixe,), (smt.Select(sv.term, e),)),
            ),
        ]
        it = IterSpec(length=n, elem=lambda k: SV(self.ctx.app(en, k), ept), facts=facts)
        it.enum_name, it.idx_name, it.elem_pt = en, ix, ept
        return it

    def traverse_iter(self, root, strategy, st) -> IterSpec:
        """ete3 TreeNode.traverse(strategy): assumed contract = an enumeration of the subtree (see contracts/trees.py)."""
        pref = {"preorder": "pre", "postorder": "post", "levelorder": "lvl"}[strategy]
        nth, idx = f"{pref}_nth", f"{pref}_idx"
        rt = self.ops.term(root)
        it = IterSpec(length=self.ctx.app("size", rt), elem=lambda k: SV(self.ctx.app(nth, rt, k), root.pt))
        it.enum_name, it.idx_name, it.elem_pt = nth, idx, root.pt
        it.trav_root = rt
        return it

    def product_iter(self, parts, st, spec) -> IterSpec:
        subs = [self.iter_spec(p, st, None) for p in parts]
        if all(s.concrete is not None for s in subs):
            import itertools

            return IterSpec(concrete=list(itertools.product(*[s.concrete for s in subs])))
        # product of two sets: every pair exactly once, in an order the contract does not depend on
        vals = []
        for p in parts:
            if isinstance(p, SV) and p.pt.kind == "set":
                vals.append(p)
            elif isinstance(p, SV) and p.pt.kind == "map":
                vals.append(SV(self.ops.map_dom(p), Set(p.pt.args[0])))
            else:
                raise Unsupported("product of other than sets")
        if len(vals) != 2:
            raise Unsupported("product of other than two sets")
        a, b = vals
        tpt = Tup(a.pt.args[0], b.pt.args[0])
        ts = self.tenv.sort(tpt)
        pairs = self.fresh("pairs", Set(tpt), st)
        pv = smt.Var(smt.fresh_name("p"), ts)
        pvv = SV(pv, tpt)
        fst, snd = self.ops.tuple_item(pvv, 0), self.ops.tuple_item(pvv, 1)
        st.assume(smt.Forall([(pv.args[0], ts)], smt.Eq(smt.Select(pairs.term, pv), smt.And(smt.Select(a.term, fst.term), smt.Select(b.term, snd.term)))))
        inner = self.set_iter(pairs, st, spec)
        it = IterSpec(length=inner.length, elem=lambda k: tuple(self.ops.tuple_item(inner.elem(k), i) for i in range(2)), facts=inner.facts)
        it.enum_name, it.idx_name, it.elem_pt = inner.enum_name, inner.idx_name, tpt
        return it

    def st_For(self, s, st):
        if s.orelse:
            raise Unsupported("for-else")
        itv = self.eval(s.iter, st)
        ordinal, spec = self.loop_spec(s)
        it = self.iter_spec(itv, st, spec)
        if it.concrete is not None and spec is None:
            return self.unroll(s, it.concrete, st)
        if it.concrete is not None:
            items = it.concrete
            it = IterSpec(length=smt.Int(len(items)), elem=lambda k: self.index(tuple(items), SV(k, INT), st))
        if spec is None:
            raise Unsupported(f"loop {ordinal} at line {s.lineno} has no invariant in the contract")
        return self.loop_with_invariant(s, ordinal, spec, st, it)

    def unroll(self, s, items, st):
        live = [st]
        done = []
        for item in items:
            nxt = []
            for cur in live:
                self.assign_target(s.target, item, cur)
                for st2, flow, val in self.exec_block(s.body, cur):
                    if flow in (Flow.NORMAL, Flow.CONTINUE):
                        nxt.append(st2)
                    elif flow == Flow.BREAK:
                        done.append((st2, Flow.NORMAL, None))
                    else:
                        done.append((st2, flow, val))
            live = nxt
        return [(x, Flow.NORMAL, None) for x in live] + done

    def st_While(self, s, st):
        if s.orelse:
            raise Unsupported("while-else")
        ordinal, spec = self.loop_spec(s)
        if spec is None:
            raise Unsupported(f"loop {ordinal} at line {s.lineno} has no invariant in the contract")
        return self.loop_with_invariant(s, ordinal, spec, st, None)

    # ---- the loop rule
    def body_writes(self, s, st, spec, it, kname):
        """Fixpoint of the set of variables / fields written by the body (dry runs, no obligations)."""
        writes = set()
        self.suppress += 1
        try:
            for _ in range(4):
                probe = st.fork()
                self.havoc_writes(probe, writes, "probe")
                probe.env[kname] = SV(self.ctx.fresh_const("kprobe", "Int"), INT)
                rec = set()
                probe.writes = rec
                try:
                    if it is not None:
                        self.assign_target(s.target, it.elem(probe.env[kname].term), probe)
                    else:
                        self.eval(s.test, probe)
                    self.exec_block(s.body, probe)
                except Unsupported:
                    raise
                new = {w for w in rec if not (w[0] == "field" and w[1] not in st.heap)}
                if new <= writes:
                    break
                writes |= new
        finally:
            self.suppress -= 1
        for k in list(st.env):
            pass
        return writes

    def havoc_writes(self, st, writes, tag):
        for w in sorted(writes, key=str):
            if w[0] == "var":
                if w[1] in st.env:
                    st.env[w[1]] = self.havoc_like(w[1], st.env[w[1]], st)
            else:
                _, oid, f = w
                if oid in st.heap and f in st.heap[oid]:
                    st.heap[oid][f] = self.havoc_like(f"o{oid}.{f}", st.heap[oid][f], st)

    def loop_with_invariant(self, s, ordinal, spec: LoopSpec, st, it):
        is_for = it is not None
        kname, nname = spec.index, spec.length
        zero = smt.Int(0)
        rec_saved = st.writes
        # enumeration facts are plain knowledge
        if is_for:
            for f in it.facts:
                st.assume(f)
            n_term = it.length
            st.env[nname] = SV(n_term, INT)
            if spec.seq:
                # expose the enumeration to the invariants as a ghost function name
                self.bind_enum(spec.seq, it, st)
        # 1. invariants hold on entry (k = 0)
        st.env[kname] = SV(zero, INT)
        for h in spec.before:
            self.eval(h.node, st)
        for i, inv in enumerate(spec.invariants):
            self.oblige(st, self.eval_clause(inv, st), f"loop{ordinal}/init/{inv.name or i}", "inv-init", text=inv.text)
        # 2. arbitrary iteration
        writes = self.body_writes(s, st, spec, it, kname)
        if rec_saved is not None:
            rec_saved |= writes
        head = st.fork()
        self.havoc_writes(head, writes, f"L{ordinal}")
        k = self.ctx.fresh_const(f"{kname}_L{ordinal}", "Int")
        head.env[kname] = SV(k, INT)
        head.assume(smt.Ge(k, zero))
        if is_for:
            head.assume(smt.Le(k, n_term))
        for inv in spec.invariants:
            head.assume(self.eval_clause(inv, head))
        out = []
        # 2a. body
        body = head.fork()
        if is_for:
            body.assume(smt.Lt(k, n_term))
            self.assign_target(s.target, it.elem(k), body)
            body_states = [body]
            for lem in spec.lemmas:
                self.eval(lem.node, body)
        else:
            c = self.ops.truthy(self.eval(s.test, body))
            body.assume(c)
            body_states = [body] if c.op != "false" else []
        measure0 = None
        if spec.decreases and not is_for and body_states:
            # termination of a while loop: an integer measure that is non-negative whenever the body is entered and strictly smaller after it
            from .contracts import Clause

            dcl = spec.decreases if isinstance(spec.decreases, Clause) else Clause(str(spec.decreases), name="decreases")
            spec.decreases = dcl
            saved_mode = self.spec_mode
            self.spec_mode = True
            try:
                measure0 = self.ops.term(self.eval(dcl.node, body), INT)
            finally:
                self.spec_mode = saved_mode
            self.oblige(body, smt.Ge(measure0, smt.Int(0)), f"loop{ordinal}/measure-non-negative", "termination", text=f"{dcl.text} >= 0 when the body is entered")
        for b0 in body_states:
            from .symex import Obligation

            cov = Obligation(f"{self.c.target}/cover/loop{ordinal}/body", b0.pc, smt.FALSE, "cover", fuel=self.c.fuel, defs=self.c.defs)
            cov.expect = "not-unsat"
            if not self.suppress:
                self.obligations.append(cov)
            for st2, flow, val in self.exec_block(s.body, b0):
                if flow in (Flow.NORMAL, Flow.CONTINUE):
                    st2.env[kname] = SV(smt.Add(k, smt.Int(1)), INT)
                    for i, inv in enumerate(spec.invariants):
                        self.oblige(st2, self.eval_clause(inv, st2), f"loop{ordinal}/preserve/{inv.name or i}", "inv-preserve", text=inv.text)
                    if measure0 is not None:
                        saved_mode = self.spec_mode
                        self.spec_mode = True
                        try:
                            measure1 = self.ops.term(self.eval(spec.decreases.node, st2), INT)
                        finally:
                            self.spec_mode = saved_mode
                        self.oblige(st2, smt.Lt(measure1, measure0), f"loop{ordinal}/measure-decreases", "termination", text=f"{spec.decreases.text} strictly decreases")
                elif flow == Flow.BREAK:
                    out.append((st2, Flow.NORMAL, None))
                else:
                    out.append((st2, flow, val))
        # 2b. normal exit
        ex = head
        if is_for:
            ex.assume(smt.Eq(k, n_term))
        else:
            c = self.ops.truthy(self.eval(s.test, ex))
            ex.assume(smt.Not(c))
        out.append((ex, Flow.NORMAL, None))
        return out

    def bind_enum(self, name, it, st):
        """Ghost names for invariants: name(i) = i-th iterated element, name_idx(x) = its position."""
        st.env[name] = GhostFun(name, lambda k: it.elem(self.ops.term(k, INT)))
        idx = getattr(it, "idx_name", None)
        if idx is not None:
            ept = getattr(it, "elem_pt", None)

            def idx_of(*xs):
                x = xs[0] if len(xs) == 1 else tuple(xs)
                want = ept
                if want is None:
                    want = self.ops.pt_of(x)
                return SV(self.ctx.app(idx, self.ops.term(x, want)), INT)

            st.env[name + "_idx"] = GhostFun(name + "_idx", idx_of)
        ke = getattr(it, "key_elem", None)
        if ke is not None:
            st.env[name + "_key"] = GhostFun(name + "_key", lambda k: ke(self.ops.term(k, INT)))

    # ------------------------------------------------------------------ misc statements
    def st_Global(self, s, st):
        raise Unsupported("global")

    def st_With(self, s, st):
        raise Unsupported("with")

    def st_Try(self, s, st):
        raise Unsupported("try")

    def st_Delete(self, s, st):
        raise Unsupported("del")


class GhostFun:
    def __init__(self, name, fn):
        self.name = name
        self.fn = fn


def _as_load(t):
    import copy

    t2 = copy.deepcopy(t)
    for n in ast.walk(t2):
        if hasattr(n, "ctx"):
            n.ctx = ast.Load()
    return t2
