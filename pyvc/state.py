"""Symbolic state: environment, heap, path condition."""
from __future__ import annotations
from .values import ObjRef


class State:
    def __init__(self):
        self.env = {}  # local name -> value
        self.heap = {}  # oid -> {field: value}
        self.pc = []  # list of Terms (hypotheses)
        self.writes = None  # when recording: set of ('var', n) / ('field', oid, f)
        self.param_oids = set()  # objects that belong to the caller (frame)
        self.ghost = {}

    def fork(self):
        s = State()
        s.env = dict(self.env)
        s.heap = {k: dict(v) for k, v in self.heap.items()}
        s.pc = list(self.pc)
        s.writes = self.writes  # shared recorder
        s.param_oids = self.param_oids
        s.ghost = dict(self.ghost)
        return s

    def assume(self, t):
        self.pc.append(t)

    def set_var(self, name, val):
        if self.writes is not None:
            self.writes.add(("var", name))
        self.env[name] = val

    def set_field(self, ref: ObjRef, field, val):
        if self.writes is not None:
            self.writes.add(("field", ref.oid, field))
        self.heap[ref.oid][field] = val

    def get_field(self, ref: ObjRef, field):
        return self.heap[ref.oid][field]
