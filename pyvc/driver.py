"""Property-level driver: prove the cone, concretise failures, run stand-ins, write evidence."""
from __future__ import annotations
import json
import os
import random
import sys
import time
import traceback

from . import prove, solver, native
from .symex import Engine
from .load import load_contracts, VERIF

EXIT_OK, EXIT_VIOLATION, EXIT_UNDECIDED, EXIT_FAULT = 0, 1, 2, 3


class Scope:
    """Bounded input space of one contracted function (L3 stand-in and concretiser)."""

    def __init__(self, gen, build=None, describe="", nontrivial=None):
        self.gen = gen  # gen(tier, rng) -> iterable of JSON-serialisable recipes
        self.build = build  # build(recipe, src_root) -> (callable, args dict, Universe|None)
        self.describe = describe
        self.nontrivial = nontrivial  # recipe -> bool


class Standin:
    """Property-level bounded check that is not tied to one contract (oracle comparisons)."""

    def __init__(self, name, run, describe=""):
        self.name = name
        self.run = run  # run(tier, rng, src_root) -> dict(evaluations, distinct_nontrivial, violations=[(what, recipe)], samples, rule)
        self.describe = describe


class PropertySpec:
    def __init__(self, pid, files, targets, level="proof", standins=(), assumptions=(), not_decided=(), technique="", bounded_targets=(), standin_for=None):
        self.pid = pid
        self.files = files
        self.targets = targets
        self.level = level
        self.standins = list(standins)
        self.assumptions = list(assumptions)
        self.not_decided = list(not_decided)
        self.technique = technique
        self.bounded_targets = list(bounded_targets)
        self.standin_for = dict(standin_for or {})  # contracted target -> name of the stand-in that evaluates the same contract at run time


def load_known(path=None):
    path = path or os.path.join(VERIF, "known_findings.jsonl")
    known, fixed = [], []
    if os.path.exists(path):
        for line in open(path):
            line = line.strip()
            if not line or line.startswith("#"):
                continue
            if line.startswith("fixed:"):
                fixed.append(line)
                continue
            known.append(json.loads(line))
    return known, fixed


def default_build(target):
    def build(recipe, src_root):
        fn = native.resolve(target, src_root)
        return fn, dict(recipe), None

    return build


def run_scope(E, contract, scope, tier, rng, src_root, limit=None):
    """Runtime evaluation of the sidecar contract on the real function over the scope."""
    build = scope.build or default_build(contract.target)
    n = nontriv = skipped = 0
    violations = []
    samples = []
    seen = set()
    for recipe in scope.gen(tier, rng):
        key = json.dumps(recipe, sort_keys=True, default=str)
        fn, args, uni = build(recipe, src_root)
        res = native.check_call(E, contract, fn, args, universe=uni)
        if res.status == "skip":
            skipped += 1
            continue
        n += 1
        if key not in seen:
            seen.add(key)
            if scope.nontrivial is None or scope.nontrivial(recipe):
                nontriv += 1
        if len(samples) < 3 and n % 7 == 1:
            samples.append(recipe)
        if res.status == "violation":
            violations.append((recipe, res))
            if len(violations) >= 3:
                break
        if limit and n >= limit:
            break
    return dict(evaluations=n, distinct_nontrivial=nontriv, skipped=skipped, violations=violations, samples=samples)


def write_replay(pid, name, payload):
    d = os.path.join(VERIF, "replays")
    os.makedirs(d, exist_ok=True)
    safe = "".join(ch if ch.isalnum() or ch in "-_." else "_" for ch in name)[:120]
    path = os.path.join(d, f"{pid}-{safe}.json")
    with open(path, "w") as f:
        json.dump(payload, f, indent=1, default=str)
    return path


def check_property(spec: PropertySpec, tier="quick", seed=0, src_root="/repo/src", out=sys.stdout):
    t0 = time.time()
    rng = random.Random(seed)
    E = Engine(src_root)
    load_contracts(E, spec.files)
    known, fixed = load_known()
    known = [k for k in known if k.get("property") == spec.pid]
    lines = []
    exit_code = EXIT_OK
    violations = []  # (obligation-or-standin name, replay path, real_input_found)
    undecided = []
    faults = []

    # ---- 1. generate and discharge
    reports = []
    dev_standins_only = bool(os.environ.get("PYVC_DEV_STANDINS_ONLY"))  # development aid (seed sweeps); never used by a registered command
    for t in ([] if dev_standins_only else spec.targets):
        if t not in E.registry.contracts:
            faults.append(f"no contract registered for {t}")
            continue
        r = prove.generate(E, t)
        reports.append(r)
        if getattr(r, "fault", None):
            faults.append(f"{t}: {r.fault}")
    schedule = (("z3", 5), ("cvc5", 10), ("z3", 20)) if tier == "quick" else (("z3", 10), ("cvc5", 20), ("z3", 60), ("cvc5", 90))
    prove.discharge(E, reports, schedule=schedule, both=(tier == "thorough"))
    all_obs = [o for r in reports for o in r.obligations]
    proof_obs = [o for o in all_obs if o.expect == "unsat"]
    guard_obs = [o for o in all_obs if o.expect != "unsat"]
    for o in all_obs:
        if o.result is not None and o.result.status == "disagree":
            faults.append(f"solver disagreement on {o.name}: {o.result.attempts}")

    # ---- 2. failed obligations: refute (ground definitions => a model is meaningful), then concretise
    failed_fns = {}
    for r in reports:
        bad = [o for o in r.obligations if not o.ok]
        if r.unbound:
            failed_fns[r.target] = ("unbound", r.unbound, [])
        elif bad:
            failed_fns[r.target] = ("failed", None, bad)
        elif not r.obligations and r.kind != "assumed":
            faults.append(f"{r.target}: zero obligations generated")
    for target, (why, msg, bad) in failed_fns.items():
        c = E.registry.contracts[target]
        sat_info = None
        for o in bad:
            if o.expect != "unsat":
                # a vacuity guard that became provable: contradictory precondition / invariant.  A single dead
                # return path is legitimate; a function all of whose paths are dead (or a dead precondition) is not.
                rep = next(r for r in reports if r.target == target)
                canaries = [x for x in rep.obligations if x.kind == "canary"]
                if o.kind != "canary" or all(not x.ok for x in canaries):
                    faults.append(f"vacuity guard {o.name} is provable (contradictory hypotheses)")
                continue
            txt = prove.vc_text(E, o, defs="ground", fuel=3)
            res = getattr(o, "refute", None)
            if res is None or res.status != "sat":
                res = solver.solve_text(txt, schedule=(("z3", 10), ("cvc5", 10)), want="sat")
            o.refute = res
            if res.status == "sat" and sat_info is None:
                sat_info = (o, res, txt)
        found = None
        scope = E.registry.scopes.get(target)
        if scope is not None and c.kind == "code":
            try:
                sr = run_scope(E, c, scope, "thorough" if tier == "thorough" else "concretise", rng, src_root)
                if sr["violations"]:
                    found = sr["violations"][0]
            except Exception:
                faults.append(f"concretiser for {target}: {traceback.format_exc()}")
        if found is None and target in spec.standin_for:
            # the executable form of this function's contract lives in a property-level stand-in: use it as the concretiser
            try:
                sf = spec.standin_for[target]
                sf_name, needle = sf if isinstance(sf, tuple) else (sf, None)  # (stand-in, substring naming this function in its messages)
                sd = next(v for v in vars(E).values() if isinstance(v, Standin) and v.name == sf_name)
                sr = sd.run(tier, rng, src_root)
                hit = [(w, r) for w, r in sr.get("violations", []) if target.split(":")[-1].lstrip("_") in w or target.split(":")[-1] in w or (needle is not None and needle in w)]
                if hit:
                    what, recipe = hit[0]
                    name = (bad[0].name if bad else target + "/unbound")
                    path = write_replay(spec.pid, name, dict(
                        property=spec.pid, target=sd.name, obligation=name, kind="standin-input", recipe=recipe, detail=what,
                        failed_obligations=[o.name for o in bad], unbound=msg,
                        solver={o.name: [list(a) for a in o.result.attempts] for o in bad if o.result}))
                    violations.append((name, path, True))
                    continue
            except Exception:
                faults.append(f"concretiser (stand-in) for {target}: {traceback.format_exc()}")
        if found is not None:
            recipe, res = found
            name = (bad[0].name if bad else target + "/unbound")
            path = write_replay(spec.pid, name, dict(
                property=spec.pid, target=target, obligation=name, kind="native-input", recipe=recipe,
                clause=res.clause, detail=res.detail,
                failed_obligations=[o.name for o in bad], unbound=msg,
                solver={o.name: [list(a) for a in o.result.attempts] for o in bad if o.result}))
            violations.append((name, path, True))
        elif sat_info is not None:
            o, res, txt = sat_info
            path = write_replay(spec.pid, o.name, dict(
                property=spec.pid, target=target, obligation=o.name, kind="obligation-only",
                clause=o.text, line=o.lineno, solver_status=res.status, solver=res.solver, solver_output=res.output[:4000],
                failed_obligations=[x.name for x in bad], smt2=txt[:200000]))
            violations.append((o.name, path, False))
        else:
            for o in bad:
                if o.expect == "unsat":
                    undecided.append((o.name, "no solver proved it and none refuted it"))
            if why == "unbound":
                undecided.append((target, f"unbound: {msg}"))

    # ---- 3. bounded stand-ins (always; labelled bounded, never counted as proved)
    standin_cov = {}
    for target in list(spec.targets) + list(spec.bounded_targets):
        scope = E.registry.scopes.get(target)
        c = E.registry.contracts.get(target)
        if scope is None or c is None or c.kind not in ("code", "assumed"):
            continue
        if any(v[0].startswith(target) and v[2] for v in violations):
            continue
        try:
            sr = run_scope(E, c, scope, tier, rng, src_root)
        except Exception:
            faults.append(f"stand-in for {target}: {traceback.format_exc()}")
            continue
        standin_cov[target] = {k: sr[k] for k in ("evaluations", "distinct_nontrivial", "skipped", "samples")}
        standin_cov[target]["bounds"] = scope.describe
        for recipe, res in sr["violations"][:1]:
            path = write_replay(spec.pid, target + "-standin", dict(
                property=spec.pid, target=target, obligation=target + "/runtime-contract", kind="native-input",
                recipe=recipe, clause=res.clause, detail=res.detail))
            violations.append((target + "/runtime-contract", path, True))
    for sd in spec.standins:
        if isinstance(sd, str):
            sd = getattr(E, "standins", {}).get(sd) or next(v for v in vars(E).values() if isinstance(v, Standin) and v.name == sd)
        try:
            sr = sd.run(tier, rng, src_root)
        except Exception:
            faults.append(f"stand-in {sd.name}: {traceback.format_exc()}")
            continue
        standin_cov[sd.name] = {k: sr.get(k) for k in ("evaluations", "distinct_nontrivial", "samples", "rule", "exhaustive") if k in sr}
        standin_cov[sd.name]["bounds"] = sd.describe
        for what, recipe in sr.get("violations", [])[:3]:
            path = write_replay(spec.pid, sd.name, dict(property=spec.pid, target=sd.name, obligation=sd.name, kind="standin-input", recipe=recipe, detail=what))
            violations.append((f"{sd.name}: {what}", path, True))

    # ---- 4. known findings
    reported = []
    for name, path, real in violations:
        match = None
        for k in known:
            if k.get("match") and k["match"] in name:
                match = k
        if match is not None:
            lines.append(f"KNOWN-FINDING: property={spec.pid} {match['what']}")
        else:
            reported.append((name, path, real))

    # ---- 5. verdict
    if faults:
        exit_code = EXIT_FAULT
    if reported:
        exit_code = EXIT_VIOLATION
        for name, path, real in reported:
            lines.append(f"FAILED-OBLIGATION {name}")
            lines.append(f"VIOLATION property={spec.pid} replay={path}" + ("" if real else " no-failing-input-found"))
    elif undecided and exit_code == EXIT_OK:
        exit_code = EXIT_UNDECIDED
    for name, why in undecided:
        lines.append(f"UNDECIDED property={spec.pid} obligation={name} ({why})")
    for f in faults:
        lines.append(f"CHECKER-FAULT property={spec.pid} {f.strip().splitlines()[-1] if f.strip() else f}")

    # ---- 6. evidence
    discharged = [o for o in proof_obs if o.ok]
    fns = []
    for r in reports:
        c = E.registry.contracts[r.target]
        fns.append(dict(
            target=r.target, kind=r.kind, source_sha=r.src_sha, unbound=r.unbound,
            obligations=len([o for o in r.obligations if o.expect == "unsat"]),
            discharged=len([o for o in r.obligations if o.expect == "unsat" and o.ok]),
            guards=len([o for o in r.obligations if o.expect != "unsat"]),
            solver_time_s=round(sum(o.result.time_s for o in r.obligations if o.result), 3),
            generation_time_s=round(r.time_s, 3)))
    by_solver = {}
    for o in discharged:
        by_solver[o.result.solver] = by_solver.get(o.result.solver, 0) + 1
    samples = [dict(obligation=o.name, kind=o.kind, clause=o.text, line=o.lineno, solver=o.result.solver,
                    time_s=round(o.result.time_s, 3), smt_bytes=getattr(o, "smt_size", None))
               for o in (discharged[:: max(1, len(discharged) // 6)] if discharged else [])][:8]
    assumed = [t for t, c in E.registry.contracts.items() if c.trusted and (t in spec.targets or t in E.used_assumed)]
    trusted = [
        "pyvc: this repository's Python-AST -> SMT-LIB verification-condition generator (encoding of the Python subset, DESIGN.md 3.2)",
        "z3 5.1.0 (z3-new) and cvc5 1.0.3 are sound for 'unsat'",
        "Python integers are mathematical (exact)",
    ] + [f"assumed contract: {t} ({E.registry.contracts[t].note})" + (f" - relied on by {', '.join(sorted(x.split(':')[-1] for x in E.used_assumed.get(t, [])))}" if E.used_assumed.get(t) else "") for t in assumed]
    trusted += [f"axiom: {a}" for a in E.assumptions if a.startswith("axiom ") and any(k in a for k in ("tree/", "ete3/", "tag/"))][:40]
    level = spec.level
    coverage = dict(
        obligations=len(proof_obs), discharged=len(discharged),
        checker_cmd=f"./check {spec.pid} --tier {tier}",
        trusted_base=trusted,
        backends=by_solver,
        solver_time_s=round(sum(o.result.time_s for o in all_obs if o.result), 2),
        vacuity_guards=dict(total=len(guard_obs), holding=len([o for o in guard_obs if o.ok]),
                            what="cover(requires) / cover(loop body) must be satisfiable and each canary (deliberately false postcondition) must NOT be provable"),
        functions_under_contract=fns,
        lemmas=[dict(name=r.target, status="proved" if r.ok else "failed") for r in reports if r.kind == "lemma"],
        slowest=[dict(obligation=o.name, backend=o.result.solver, winning_attempt_s=(o.result.attempts[-1][2] if o.result.attempts else None), cumulative_s=round(o.result.time_s, 2))
                 for o in sorted(discharged, key=lambda o: -(o.result.attempts[-1][2] if o.result.attempts else 0))[:12]],
        bounded_standins=standin_cov,
        samples=samples,
        not_decided=spec.not_decided,
        contract_files=E.registry.files,
        extraction_drops="docstrings, type annotations, comments, @overload stubs, X.__doc__ assignments (DESIGN.md 3.2)",
    )
    if level != "proof":
        ev = sum(v.get("evaluations") or 0 for v in standin_cov.values())
        dn = sum(v.get("distinct_nontrivial") or 0 for v in standin_cov.values())
        coverage.update(evaluations=ev, distinct_nontrivial=dn,
                        rule="bounded stand-in: sidecar contracts evaluated at run time on the real functions over the enumerated scopes listed under bounded_standins; a case is non-trivial when its precondition holds and it is distinct as a JSON recipe")
        smp = [s for v in standin_cov.values() for s in (v.get("samples") or [])][:5]
        coverage["samples"] = (smp + samples)[:8] or samples
    evidence = dict(
        property_id=spec.pid, tier=tier, seed=seed, level=level, coverage=coverage,
        assumptions=list(spec.assumptions) + list(E.assumptions),
        wall_s=round(time.time() - t0, 2),
        violations=len(reported),
        known_findings=[l for l in lines if l.startswith("KNOWN-FINDING")],
        undecided=[u[0] for u in undecided],
        exit_code=exit_code,
    )
    os.makedirs(os.path.join(VERIF, "evidence"), exist_ok=True)
    if not dev_standins_only:
        with open(os.path.join(VERIF, "evidence", f"{spec.pid}.json"), "w") as f:
            json.dump(evidence, f, indent=1, default=str)
    print(f"[{spec.pid}] tier={tier} obligations={len(proof_obs)} discharged={len(discharged)} guards={len(guard_obs)} "
          f"standins={sum((v.get('evaluations') or 0) for v in standin_cov.values())} wall={evidence['wall_s']}s exit={exit_code}", file=out)
    for l in lines:
        print(l, file=out)
    return exit_code


def replay(path, specs, src_root="/repo/src"):
    data = json.load(open(path))
    pid = data["property"]
    spec = specs[pid]
    E = Engine(src_root)
    load_contracts(E, spec.files)
    if data.get("kind") == "native-input":
        target = data["target"]
        c = E.registry.contracts[target]
        scope = E.registry.scopes[target]
        build = scope.build or default_build(target)
        fn, args, uni = build(data["recipe"], src_root)
        res = native.check_call(E, c, fn, args, universe=uni)
        print(f"replay {path}: {res.status} clause={res.clause} detail={res.detail}")
        return EXIT_VIOLATION if res.status == "violation" else EXIT_OK
    if data.get("kind") == "standin-input":
        for sd in spec.standins:
            if isinstance(sd, str):
                sd = next(v for v in vars(E).values() if isinstance(v, Standin) and v.name == sd)
            if sd.name == data["target"] and getattr(sd, "replay", None):
                what = sd.replay(data["recipe"], src_root)
                print(f"replay {path}: {'violation: ' + what if what else 'ok'}")
                return EXIT_VIOLATION if what else EXIT_OK
    print(f"replay {path}: obligation-only record (no concrete input); failed obligation {data.get('obligation')}")
    print(data.get("solver_output", "")[:2000])
    return EXIT_OK
