"""Discharge the obligations of a set of contracted functions."""
from __future__ import annotations
import os
import time
from concurrent.futures import ThreadPoolExecutor

from . import solver
from .symex import Engine


class FnReport:
    def __init__(self, target):
        self.target = target
        self.unbound = None
        self.obligations = []
        self.src_sha = None
        self.kind = "code"
        self.time_s = 0.0

    @property
    def failed(self):
        return [o for o in self.obligations if not o.ok]

    @property
    def ok(self):
        return self.unbound is None and not self.failed and len(self.obligations) > 0


def generate(engine: Engine, target) -> FnReport:
    rep = FnReport(target)
    t0 = time.time()
    c = engine.registry.contracts[target]
    rep.kind = c.kind
    if c.trusted:
        rep.kind = "assumed"
        return rep
    try:
        fx = engine.verify(target)
        rep.unbound = fx.unbound
        rep.obligations = fx.obligations
        rep.src_sha = fx.src_sha
    except Exception as e:  # checker fault, reported as such
        import traceback

        rep.unbound = None
        rep.fault = traceback.format_exc()
    rep.time_s = time.time() - t0
    return rep


def _has_quant(t):
    from . import smt

    return any(x.op in ("forall", "exists") for x, _ in smt.subterms(t))


def _slice_keep(ob, rounds=2, hub=0.3):
    """Relevance slice of the hypotheses (dropping hypotheses is sound): constants that occur in more than `hub` of the hypotheses are
    ignored; a hypothesis is kept when it shares another constant with the goal, transitively for `rounds` rounds, or when it has none."""
    from . import smt

    cs = [set(smt.free_consts(h)) for h in ob.hyps]
    n = max(1, len(cs))
    freq = {}
    for c in cs:
        for x in c:
            freq[x] = freq.get(x, 0) + 1
    hubs = {x for x, k in freq.items() if k > hub * n and n > 20}
    rare = [c - hubs for c in cs]
    seen = set(smt.free_consts(ob.goal)) - hubs
    kept = [not r for r in rare]
    for _ in range(rounds):
        grew = False
        for i, r in enumerate(rare):
            if not kept[i] and r & seen:
                kept[i] = True
                grew = True
        for i, r in enumerate(rare):
            if kept[i]:
                seen |= r
        if not grew:
            break
    ids = {id(h) for h, k in zip(ob.hyps, kept) if k}
    return lambda h: id(h) in ids


def vc_text(engine, ob, defs=None, fuel=None, get_values=(), nl="exact", axioms=True, seq="real", focus=False, sliced=False):
    keep = None
    if sliced:
        keep = _slice_keep(ob)
    if focus:
        # "focus": of the quantified hypotheses only preconditions and ghost cuts are kept (the cuts summarise callee
        # postconditions and loop invariants); dropping hypotheses is sound
        origin = engine.hyp_origin
        keep = lambda h: origin.get(str(h)) in ("cut", "pre") or not _has_quant(h)
    return engine.ctx.vc_text(ob.hyps, ob.goal, defs=defs or ob.defs, fuel=fuel or ob.fuel, get_values=get_values, nl=nl, extra_axioms=axioms, seq=seq, keep=keep)


# Portfolio of sound weakenings of one VC.  Every variant drops or abstracts something (axioms known to blow up E-matching,
# quantified hypotheses other than preconditions and ghost cuts, the sequence theory, products, quantified definitions), so `unsat`
# from any of them proves the obligation; only the unweakened VC ("full") is ever used to refute.
VARIANTS = [
    # label, vc_text keywords, solver, CPU seconds; ordered by how many obligations each stage closed per second in practice
    ("sliced hypotheses, ground-defs", dict(defs="ground", fuel=None, sliced=True), "z3", 2),
    ("sliced hypotheses, light axioms", dict(axioms="light", sliced=True), "z3", 3),
    ("ground-defs", dict(defs="ground", fuel=None), "z3", 3),
    ("light axioms", dict(axioms="light"), "z3", 5),
    ("light axioms, ground-defs, products abstracted", dict(axioms="light", defs="ground", fuel=None, nl="abstract"), "z3", 6),
    ("ground-defs, products abstracted", dict(defs="ground", fuel=None, nl="abstract"), "cvc5", 8),
    ("light axioms", dict(axioms="light"), "cvc5", 8),
    ("light axioms, sequences abstracted", dict(axioms="light", seq="abstract"), "z3", 8),
    ("light axioms, sequences abstracted", dict(axioms="light", seq="abstract"), "cvc5", 8),
    ("focus, ground-defs, sequences abstracted", dict(axioms="light", focus=True, defs="ground", fuel=3, seq="abstract"), "z3", 6),
    ("focus", dict(axioms="light", focus=True), "z3", 6),
    ("ground-defs, products abstracted", dict(defs="ground", fuel=None, nl="abstract"), "z3", 20),
    ("light axioms, ground-defs, sequences abstracted", dict(axioms="light", defs="ground", fuel=3, seq="abstract"), "z3", 6),
    ("full", dict(), "z3", 20),
    ("full", dict(), "cvc5", 20),
    ("ground-defs", dict(defs="ground", fuel=None), "cvc5", 10),
    ("focus", dict(axioms="light", focus=True), "cvc5", 10),
    ("focus, sequences abstracted", dict(axioms="light", focus=True, seq="abstract"), "z3", 6),
    ("light axioms, ground-defs", dict(axioms="light", defs="ground", fuel=3), "z3", 5),
    ("focus, ground-defs", dict(axioms="light", focus=True, defs="ground", fuel=3), "z3", 6),
]


LONG_VARIANTS = [
    ("ground-defs, products abstracted", dict(defs="ground", fuel=None, nl="abstract"), "z3", 60),
    ("light axioms", dict(axioms="light"), "z3", 40),
    ("light axioms, sequences abstracted", dict(axioms="light", seq="abstract"), "z3", 40),
    ("focus, sequences abstracted", dict(axioms="light", focus=True, seq="abstract"), "z3", 30),
    ("ground-defs, products abstracted", dict(defs="ground", fuel=None, nl="abstract"), "cvc5", 40),
    ("light axioms", dict(axioms="light"), "cvc5", 60),
    ("full", dict(), "z3", 60),
    ("full", dict(), "cvc5", 60),
]


def discharge(engine: Engine, reports, schedule=None, both=False, workers=16):
    """Staged portfolio: every stage is one variant of the VC tried on all still-open obligations in parallel."""
    obs = [o for r in reports for o in r.obligations]
    deep = bool(schedule) and sum(t for _, t in schedule) > 60  # thorough tier: longer budgets

    def run_variant(o, label, kw, sv, to):
        kw = dict(kw)
        if "fuel" in kw and kw["fuel"] is None:
            kw["fuel"] = max(2, o.fuel)
        txt = vc_text(engine, o, **kw)
        if sv == "z3" and "seq." not in txt and "seq=" in str(kw) and kw.get("seq") == "abstract":
            return None  # nothing to abstract: identical to an earlier variant
        if "nl" in kw and "nlmul" not in txt:
            return None
        res = solver.solve_text(txt, schedule=((sv, to * (2 if deep else 1)),))
        return res

    def guards(o):
        txt = vc_text(engine, o, defs="ground")
        res = solver.solve_text(txt, schedule=(("z3", 2), ("cvc5", 2)), both=True)
        o.result = res
        o.ok = res.status != "unsat"
        o.smt_size = len(txt)
        return o

    def both_solvers(o):
        txt = vc_text(engine, o)
        o.smt_size = len(txt)
        res = solver.solve_text(txt, schedule=list(schedule or solver.DEFAULT_SCHEDULE), both=True)
        o.result = res
        o.ok = res.status == "unsat"
        return o

    proof_obs = [o for o in obs if o.expect != "not-unsat"]
    with ThreadPoolExecutor(max_workers=workers) as ex:
        list(ex.map(guards, [o for o in obs if o.expect == "not-unsat"]))
        for o in proof_obs:
            o.attempts_all = []
            o.ok = False
            o.result = None
            o.refute = None
            o.smt_size = None
        open_obs = list(proof_obs)
        for label, kw, sv, to in VARIANTS:
            if not open_obs:
                break

            def step(o, label=label, kw=kw, sv=sv, to=to):
                res = run_variant(o, label, kw, sv, to)
                if res is None:
                    return o
                if o.smt_size is None:
                    o.smt_size = len(vc_text(engine, o))
                o.attempts_all += [(f"{a[0]}[{label}]", a[1], a[2]) for a in res.attempts]
                if res.status == "unsat":
                    res.solver = f"{sv}({label})" if label != "full" else sv
                    res.attempts = list(o.attempts_all)
                    res.time_s = sum(a[2] for a in o.attempts_all)
                    o.result, o.ok = res, True
                elif res.status == "sat":
                    # a model of a weakened VC is only a hint; of the full VC it is a refutation
                    if label == "ground-defs" and sv == "z3":
                        o.refute = res
                    if label == "full":
                        res.attempts = list(o.attempts_all)
                        o.result = res
                return o

            t_stage = time.time()
            n_before = len(open_obs)
            list(ex.map(step, open_obs))
            open_obs = [o for o in open_obs if not o.ok and not (o.result is not None and o.result.status == "sat")]
            if os.environ.get("PYVC_TRACE"):
                print(f"[stage] {sv}({label}) {to}s: {n_before} -> {len(open_obs)} open, {time.time() - t_stage:.1f}s wall", flush=True)
        if 0 < len(open_obs) <= 12:
            # a few obligations left: long budgets (many open ones mean a changed function, not a hard proof)
            for label, kw, sv, to in LONG_VARIANTS:
                if not open_obs:
                    break

                def step2(o, label=label, kw=kw, sv=sv, to=to):
                    res = run_variant(o, label, kw, sv, to)
                    if res is None:
                        return o
                    o.attempts_all += [(f"{a[0]}[{label}, long]", a[1], a[2]) for a in res.attempts]
                    if res.status == "unsat":
                        res.solver = f"{sv}({label})[long budget]"
                        res.attempts = list(o.attempts_all)
                        res.time_s = sum(a[2] for a in o.attempts_all)
                        o.result, o.ok = res, True
                    elif res.status == "sat" and label == "full":
                        res.attempts = list(o.attempts_all)
                        o.result = res
                    return o

                list(ex.map(step2, open_obs))
                open_obs = [o for o in open_obs if not o.ok and not (o.result is not None and o.result.status == "sat")]
        for o in proof_obs:
            if o.result is None:
                o.result = solver.Result("unknown", "-", sum(a[2] for a in o.attempts_all), "", list(o.attempts_all))
        if both:
            # thorough tier: additionally run both solvers on the unweakened VC and report disagreements
            def cross(o):
                txt = vc_text(engine, o)
                res = solver.solve_text(txt, schedule=(("z3", 10), ("cvc5", 10)), both=True)
                if res.status == "disagree":
                    o.result, o.ok = res, False
                return o

            list(ex.map(cross, proof_obs))
    return obs
