"""Discharge the obligations of a set of contracted functions."""
from __future__ import annotations
import time
from concurrent.futures import ThreadPoolExecutor

from . import solver
from .symex import Engine


class FnReport:
    def __init__(self, target):
        self.target = target
        self.unbound = None
        self.obligations = []
        self.src_sha = None
        self.kind = "code"
        self.time_s = 0.0

    @property
    def failed(self):
        return [o for o in self.obligations if not o.ok]

    @property
    def ok(self):
        return self.unbound is None and not self.failed and len(self.obligations) > 0


def generate(engine: Engine, target) -> FnReport:
    rep = FnReport(target)
    t0 = time.time()
    c = engine.registry.contracts[target]
    rep.kind = c.kind
    if c.trusted:
        rep.kind = "assumed"
        return rep
    try:
        fx = engine.verify(target)
        rep.unbound = fx.unbound
        rep.obligations = fx.obligations
        rep.src_sha = fx.src_sha
    except Exception as e:  # checker fault, reported as such
        import traceback

        rep.unbound = None
        rep.fault = traceback.format_exc()
    rep.time_s = time.time() - t0
    return rep


def vc_text(engine, ob, defs=None, fuel=None, get_values=()):
    return engine.ctx.vc_text(ob.hyps, ob.goal, defs=defs or ob.defs, fuel=fuel or ob.fuel, get_values=get_values)


def discharge(engine: Engine, reports, schedule=None, both=False, workers=16):
    schedule = schedule or solver.DEFAULT_SCHEDULE
    obs = [o for r in reports for o in r.obligations]
    texts = [vc_text(engine, o, defs="ground" if o.expect == "not-unsat" else None) for o in obs]

    def work(i):
        o = obs[i]
        if o.expect == "not-unsat":
            # vacuity guards: must NOT be provable; a short budget is enough (sat or unknown both fine)
            res = solver.solve_text(texts[i], schedule=(("z3", 2), ("cvc5", 2)), both=True)
            o.result = res
            o.ok = res.status != "unsat"
        else:
            res = solver.solve_text(texts[i], schedule=schedule, both=both)
            o.result = res
            o.ok = res.status == "unsat"
        o.smt_size = len(texts[i])
        return o

    with ThreadPoolExecutor(max_workers=workers) as ex:
        list(ex.map(work, range(len(obs))))
    return obs
