"""Discharge the obligations of a set of contracted functions."""
from __future__ import annotations
import time
from concurrent.futures import ThreadPoolExecutor

from . import solver
from .symex import Engine


class FnReport:
    def __init__(self, target):
        self.target = target
        self.unbound = None
        self.obligations = []
        self.src_sha = None
        self.kind = "code"
        self.time_s = 0.0

    @property
    def failed(self):
        return [o for o in self.obligations if not o.ok]

    @property
    def ok(self):
        return self.unbound is None and not self.failed and len(self.obligations) > 0


def generate(engine: Engine, target) -> FnReport:
    rep = FnReport(target)
    t0 = time.time()
    c = engine.registry.contracts[target]
    rep.kind = c.kind
    if c.trusted:
        rep.kind = "assumed"
        return rep
    try:
        fx = engine.verify(target)
        rep.unbound = fx.unbound
        rep.obligations = fx.obligations
        rep.src_sha = fx.src_sha
    except Exception as e:  # checker fault, reported as such
        import traceback

        rep.unbound = None
        rep.fault = traceback.format_exc()
    rep.time_s = time.time() - t0
    return rep


def _has_quant(t):
    from . import smt

    return any(x.op in ("forall", "exists") for x, _ in smt.subterms(t))


def vc_text(engine, ob, defs=None, fuel=None, get_values=(), nl="exact", axioms=True, seq="real", focus=False):
    keep = None
    if focus:
        # "focus": of the quantified hypotheses only preconditions and ghost cuts are kept (the cuts summarise callee
        # postconditions and loop invariants); dropping hypotheses is sound
        origin = engine.hyp_origin
        keep = lambda h: origin.get(str(h)) in ("cut", "pre") or not _has_quant(h)
    return engine.ctx.vc_text(ob.hyps, ob.goal, defs=defs or ob.defs, fuel=fuel or ob.fuel, get_values=get_values, nl=nl, extra_axioms=axioms, seq=seq, keep=keep)


def discharge(engine: Engine, reports, schedule=None, both=False, workers=16):
    """Stage 1: z3 short.  Stage 2: cheap refutation attempt with ground definitions (sat => likely broken,
    give it one more prover attempt only).  Stage 3: the rest of the schedule."""
    schedule = list(schedule or solver.DEFAULT_SCHEDULE)
    obs = [o for r in reports for o in r.obligations]

    def work(o):
        if o.expect == "not-unsat":
            txt = vc_text(engine, o, defs="ground")
            res = solver.solve_text(txt, schedule=(("z3", 2), ("cvc5", 2)), both=True)
            o.result = res
            o.ok = res.status != "unsat"
            o.smt_size = len(txt)
            return o
        txt = vc_text(engine, o)
        o.smt_size = len(txt)
        if both:
            res = solver.solve_text(txt, schedule=schedule, both=True)
            o.result = res
            o.ok = res.status == "unsat"
            return o
        # ground definitional instances first: fewer axioms, so 'unsat' is a proof and 'sat' is a cheap hint
        gtxt = vc_text(engine, o, defs="ground", fuel=max(2, o.fuel))
        ref = solver.solve_text(gtxt, schedule=(("z3", 3),))
        o.refute = ref
        ab = None
        if ref.status != "unsat" and "nlmul" in gtxt.split("(check-sat)")[0].split("\n", 3)[-1]:
            # same VC with products of two non-constants left uninterpreted (sound for unsat)
            ab = solver.solve_text(vc_text(engine, o, defs="ground", fuel=max(2, o.fuel), nl="abstract"), schedule=(("z3", 8), ("cvc5", 8)))
        if ref.status == "unsat":
            ref.solver = "z3(ground-defs)"
            res = ref
        elif ab is not None and ab.status == "unsat":
            ab.solver = ab.solver + "(ground-defs, products abstracted)"
            ab.attempts = [("z3-ground", ref.status, round(ref.time_s, 3))] + ab.attempts
            res = ab
        else:
            light = None
            if ref.status != "sat" and engine.ctx.heavy_axioms:
                # same VC without the axioms that make E-matching explode (sound: fewer hypotheses)
                light = solver.solve_text(vc_text(engine, o, axioms="light"), schedule=(("z3", 4), ("cvc5", 6)))
            if light is not None and light.status != "unsat" and "seq." in txt:
                # sequences abstracted to an uninterpreted sort with nth / len (sound weakening; quantified seq.nth reasoning is slow)
                l2 = solver.solve_text(vc_text(engine, o, axioms="light", seq="abstract"), schedule=(("z3", 4), ("cvc5", 6)))
                if l2.status == "unsat":
                    l2.solver = l2.solver + "(sequences abstracted)"
                    l2.attempts = light.attempts + l2.attempts
                    light = l2
            if light is not None and light.status != "unsat" and o.kind in ("post", "assert", "inv-preserve", "call-pre"):
                l3 = solver.solve_text(vc_text(engine, o, axioms="light", focus=True, seq="abstract" if "seq." in txt else "real"), schedule=(("z3", 4), ("cvc5", 6)))
                if l3.status == "unsat":
                    l3.solver = l3.solver + "(focus: only preconditions, cuts and quantifier-free facts)"
                    l3.attempts = light.attempts + l3.attempts
                    light = l3
            if light is not None and light.status == "unsat":
                light.solver = light.solver + "(light axioms)"
                light.attempts = [("z3-ground", ref.status, round(ref.time_s, 3))] + light.attempts
                light.time_s += ref.time_s
                o.result = light
                o.ok = True
                return o
            rest = schedule[:2] if ref.status == "sat" else schedule
            res = solver.solve_text(txt, schedule=rest)
            if res.status != "unsat" and ref.status != "sat":
                r3 = solver.solve_text(gtxt, schedule=(("cvc5", 10),))
                if r3.status == "unsat":
                    r3.solver = "cvc5(ground-defs)"
                    r3.attempts = res.attempts + r3.attempts
                    res = r3
            res.attempts = [("z3-ground", ref.status, round(ref.time_s, 3))] + res.attempts
            res.time_s += ref.time_s
        o.result = res
        o.ok = res.status == "unsat"
        return o

    with ThreadPoolExecutor(max_workers=workers) as ex:
        list(ex.map(work, obs))

    # Rescue pass: an obligation that nobody proved and nobody refuted may just have lost the race for CPU time
    # (all 16 cores busy, other checks running).  Re-run those few with long budgets and little parallelism so the
    # verdict does not depend on the load.  Never turns a 'sat' into anything else.
    def undecided(o):
        return (o.expect == "unsat" and not o.ok and o.result is not None and o.result.status not in ("sat", "disagree")
                and getattr(getattr(o, "refute", None), "status", None) != "sat")

    def rescue(o):
        long = (("z3", 60), ("cvc5", 90))
        tries = [(vc_text(engine, o, axioms="light"), "(light axioms)"),
                 (vc_text(engine, o, defs="ground", fuel=max(2, o.fuel)), "(ground-defs)"),
                 (vc_text(engine, o), ""),
                 (vc_text(engine, o, defs="ground", fuel=max(2, o.fuel), nl="abstract"), "(ground-defs, products abstracted)")]
        for txt, tag in tries:
            res = solver.solve_text(txt, schedule=long)
            if res.status == "unsat":
                res.solver = res.solver + tag + "[rescue]"
                res.attempts = o.result.attempts + res.attempts
                res.time_s += o.result.time_s
                o.result = res
                o.ok = True
                return o
            if res.status == "sat" and tag == "":
                o.result = res
                return o
        return o

    left = [o for o in obs if undecided(o)]
    if left:
        # many undecided obligations at once is a changed function, not load: rescue only a handful
        with ThreadPoolExecutor(max_workers=4) as ex:
            list(ex.map(rescue, left[:12]))
    return obs
