"""Run-time values of the symbolic executor."""
from __future__ import annotations
from . import smt
from .types import PT


class SV:
    """Symbolic value: an SMT term with its Python-level type."""

    __slots__ = ("term", "pt")

    def __init__(self, term, pt):
        assert isinstance(term, smt.Term), term
        assert isinstance(pt, PT), pt
        self.term = term
        self.pt = pt

    def __repr__(self):
        return f"SV<{self.pt}>({self.term})"


class ObjRef:
    """Reference to a heap object allocated by the executor (identity = oid)."""

    __slots__ = ("oid", "cls")

    def __init__(self, oid, cls):
        self.oid = oid
        self.cls = cls

    def __repr__(self):
        return f"Obj#{self.oid}:{self.cls}"

    def __eq__(self, o):
        return isinstance(o, ObjRef) and o.oid == self.oid

    def __hash__(self):
        return hash(self.oid)


class View:
    """`table[k0]...[kn]` on an object of a class declared indexable: a partial address, not an object.
    Method calls / stores through it are desugared to contracts `cell<n>_<method>(obj, k0..kn, args)` of the class."""

    __slots__ = ("obj", "keys")

    def __init__(self, obj, keys):
        self.obj = obj
        self.keys = tuple(keys)

    def __repr__(self):
        return f"View({self.obj!r}, {self.keys!r})"


class OptRef:
    """Optional[object]: `present` (a Bool term) and the object it denotes when present (e.g. what `_get_real` returns)."""

    __slots__ = ("present", "ref")

    def __init__(self, present, ref):
        self.present = present
        self.ref = ref

    def __repr__(self):
        return f"OptRef({self.present}, {self.ref!r})"


class EnumVal:
    __slots__ = ("enum", "member")

    def __init__(self, enum, member):
        self.enum = enum
        self.member = member

    def __repr__(self):
        return f"{self.enum}.{self.member}"

    def __eq__(self, o):
        return isinstance(o, EnumVal) and (o.enum, o.member) == (self.enum, self.member)

    def __hash__(self):
        return hash((self.enum, self.member))


class EnumClass:
    def __init__(self, name, members):
        self.name = name
        self.members = members


class RecordClass:
    def __init__(self, name, fields, defaults=None):
        self.name = name
        self.fields = fields  # [(name, PT)]
        self.defaults = defaults or {}


class StaticRecClass:
    """A NamedTuple class whose fields hold heap objects: instances are kept as Python dictionaries field -> value."""

    def __init__(self, name, fields):
        self.name = name
        self.fields = tuple(fields)


class StaticRec(dict):
    """instance of a StaticRecClass (attribute access = field lookup)"""


class ObjClass:
    def __init__(self, name):
        self.name = name


class Closure:
    def __init__(self, node, env, name="<lambda>"):
        self.node = node  # ast.Lambda or ast.FunctionDef
        self.env = env  # captured local environment (dict, by reference to the snapshot)
        self.name = name


class SpecFun:
    """A spec function usable in contracts (SMT symbol + native python callable)."""

    def __init__(self, name, params, ret, native=None):
        self.name = name
        self.params = params  # [(name, PT)]
        self.ret = ret
        self.native = native


class Builtin:
    def __init__(self, name):
        self.name = name

    def __repr__(self):
        return f"<builtin {self.name}>"


class BoundMethod:
    def __init__(self, recv, name):
        self.recv = recv
        self.name = name


class UFun:
    """Function-typed parameter modelled as an uninterpreted pure function."""

    def __init__(self, name, argpts, retpt):
        self.name = name
        self.argpts = argpts
        self.retpt = retpt


class Unsupported(Exception):
    """Raised when the code leaves the supported subset: the function becomes 'unbound'."""


class TypeMismatch(Unsupported):
    """A value of the wrong type reaches an operation: the path must be infeasible (obligation)."""
