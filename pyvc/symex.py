"""Symbolic executor: real Python AST + sidecar contract -> proof obligations."""
from __future__ import annotations
import ast
import copy
import hashlib
import itertools
import os

from . import smt
from .smt import Term
from .ctx import Ctx
from .types import PT, INT, BOOL, EXT, NONE, STR, Opt, Seq, Set, Arr, Map, Tup, TypeEnv
from .values import (
    SV,
    ObjRef,
    EnumVal,
    EnumClass,
    RecordClass,
    ObjClass,
    Closure,
    SpecFun,
    Builtin,
    BoundMethod,
    UFun,
    Unsupported,
)
from .ops import Ops
from .state import State
from .contracts import Contract, Registry, Clause, LoopSpec, parse_expr


class Obligation:
    def __init__(self, name, hyps, goal, kind, lineno=None, text=None, fuel=2, defs="both"):
        self.name = name
        self.hyps = list(hyps)
        self.goal = goal
        self.kind = kind  # post | inv-init | inv-preserve | safety | call-pre | assert | frame | canary | cover | lemma
        self.lineno = lineno
        self.text = text
        self.fuel = fuel
        self.defs = defs
        self.expect = "unsat"  # canaries / covers expect "not unsat"
        self.result = None

    def __repr__(self):
        return f"<Oblig {self.name} [{self.kind}]>"


class Flow:
    NORMAL, RETURN, BREAK, CONTINUE = range(4)


class IterSpec:
    """Abstract view of an iterable: length term and element at ghost index."""

    def __init__(self, length, elem, facts=(), concrete=None):
        self.length = length  # Term Int (or None when concrete)
        self.elem = elem  # function Term(Int) -> value
        self.facts = list(facts)  # Terms assumed about the enumeration
        self.concrete = concrete  # python list of values when statically known


class Engine:
    def __init__(self, src_root="/repo/src"):
        self.src_root = src_root
        self.ctx = Ctx()
        self.tenv = TypeEnv(self.ctx)
        self.ops = Ops(self.ctx, self.tenv)
        self.registry = Registry()
        self.globals = {}
        self.specs = {}
        self.native_ns = {}
        self.native_imports = {}
        self.native_hooks = []
        try:
            import infinity

            self.native_ns["inf"] = infinity.inf
        except ImportError:
            pass
        self.assumptions = []  # free-text list of assumed facts (axioms, external contracts)
        self.used_assumed = {}  # assumed contract -> verified functions that call it
        self.hyp_origin = {}  # str(hypothesis term) -> origin tag ('callee-post')
        self._oid = itertools.count(1)
        self._ast_cache = {}
        self._install_builtins()

    # ------------------------------------------------------------------ declarations
    def _install_builtins(self):
        for b in (
            "len min max range enumerate zip list set tuple isinstance is_infinite abs sum any all "
            "forall exists implies iff old product sorted reversed dict int bool ite cover callable getattr "
            "frozenset print map the fin is_fin defaultdict"
        ).split():
            self.globals[b] = Builtin(b)
        self.tenv.ensure_ext()
        self.globals["inf"] = SV(smt.Const("PInf", "Ext"), EXT)
        self.globals["True"] = True
        self.globals["False"] = False
        self.globals["None"] = None
        # 2**k and int.bit_length, axiomatised (validated against CPython in the self-checks)
        self.spec("pow2", "k: Int", "Int", "1 if k <= 0 else 2 * pow2(k - 1)", native=lambda k: 1 if k <= 0 else 2 ** k)
        self.spec("bl", "x: Int", "Int", None, native=lambda x: int(x).bit_length())
        x = smt.Var("x", "Int")
        blx = self.ctx.app("bl", x)
        p2 = lambda t: self.ctx.app("pow2", t)
        self.ctx.specs["bl"].facts.append(("bl/zero", smt.Implies(smt.Eq(x, smt.Int(0)), smt.Eq(blx, smt.Int(0)))))
        self.ctx.specs["bl"].facts.append(
            (
                "bl/bounds",
                smt.Implies(
                    smt.Gt(x, smt.Int(0)),
                    smt.And(smt.Ge(blx, smt.Int(1)), smt.Le(p2(smt.Sub(blx, smt.Int(1))), x), smt.Lt(x, p2(blx))),
                ),
            )
        )
        self.ctx.specs["bl"].facts.append(("bl/nonneg", smt.Ge(blx, smt.Int(0))))
        k = smt.Var("k", "Int")
        self.ctx.specs["pow2"].facts.append(("pow2/pos", smt.Ge(p2(k), smt.Int(1))))
        self.assumptions.append("x.bit_length() axioms: bl(0)=0; x>0 => 2**(bl(x)-1) <= x < 2**bl(x) (validated against CPython for x < 2**12)")

    def declare_ref(self, name, truthy=None, order=None):
        pt = self.tenv.declare_ref(name)
        if truthy:
            self.ctx.declare_fun(truthy, [name], "Bool")
            self.ops.ref_truthy[name] = truthy
            self.globals[truthy] = SpecFun(truthy, [("x", pt)], BOOL)
        if order:
            self.ctx.declare_fun(order, [name, name], "Bool")
            self.ops.ref_order[name] = order
            a, b, c = (smt.Var(n, name) for n in "abc")
            lt = lambda x, y: self.ctx.app(order, x, y)
            self.ctx.add_axiom(f"{order}/irrefl", smt.Forall([("a", name)], smt.Not(lt(a, a))))
            self.ctx.add_axiom(
                f"{order}/trans",
                smt.Forall([("a", name), ("b", name), ("c", name)], smt.Implies(smt.And(lt(a, b), lt(b, c)), lt(a, c))),
            )
            self.ctx.add_axiom(
                f"{order}/total",
                smt.Forall([("a", name), ("b", name)], smt.Or(lt(a, b), lt(b, a), smt.Eq(a, b))),
            )
            self.assumptions.append(f"sort {name} is strictly totally ordered by {order} (Python '<' on the elements)")
        return pt

    def declare_ref_attr(self, sort, attr, fn):
        """`x.attr` on a value of uninterpreted sort `sort` reads the spec function `fn(x)`."""
        if not hasattr(self, "ref_attrs"):
            self.ref_attrs = {}
        self.ref_attrs[(sort, attr)] = fn

    def declare_enum(self, name, members):
        pt = self.tenv.declare_enum(name, members)
        self.globals[name] = EnumClass(name, list(members))
        return pt

    def declare_record(self, name, fields, defaults=None):
        pt = self.tenv.declare_record(name, fields)
        self.globals[name] = RecordClass(name, self.tenv.records[name], defaults or {})
        return pt

    def declare_class(self, name, fields, dataclass=False):
        pt = self.tenv.declare_class(name, fields)
        self.globals[name] = ObjClass(name)
        if dataclass:  # generated __init__: positional / keyword arguments assigned to the fields in declaration order
            if not hasattr(self, "dataclasses"):
                self.dataclasses = {}
            self.dataclasses[name] = list(fields)
        return pt

    def declare_ufun(self, name, argtypes, rettype, native=None):
        """Uninterpreted (ghost / abstract) function usable in contracts."""
        ps = [(f"a{i}", self.tenv.parse(t) if isinstance(t, str) else t) for i, t in enumerate(argtypes)]
        ret = self.tenv.parse(rettype) if isinstance(rettype, str) else rettype
        self.ctx.define_spec(name, [(n, self.tenv.sort(p)) for n, p in ps], self.tenv.sort(ret), None)
        sf = SpecFun(name, ps, ret, native)
        self.specs[name] = sf
        self.globals[name] = sf
        if native is not None:
            self.native_ns[name] = native
        return sf

    def spec(self, name, params, ret, body=None, native=None):
        """Declare a spec function.  params: 'a: Int, s: Seq[Elem]'; body: Python expression text."""
        ps = []
        if params.strip():
            for item in _split_top(params):
                n, t = item.split(":", 1)
                ps.append((n.strip(), self.tenv.parse(t.strip())))
        retpt = self.tenv.parse(ret)
        self.ctx.define_spec(name, [(n, self.tenv.sort(p)) for n, p in ps], self.tenv.sort(retpt), None)
        sf = SpecFun(name, ps, retpt, native)
        self.specs[name] = sf
        self.globals[name] = sf
        if body is not None:
            sf.body_text = " ".join(body.split())
            st = State()
            for n, p in ps:
                st.env[n] = SV(smt.Var(n, self.tenv.sort(p)), p)
            fx = FnExec(self, None, None, spec_mode=True)
            val = fx.eval(parse_expr(body), st, want=retpt)
            self.ctx.specs[name].body = self.ops.term(val, retpt)
            if native is None:
                src = f"lambda {', '.join(n for n, _ in ps)}: {sf.body_text}"
                self.native_ns[name] = eval(src, self.native_ns)  # recursive through the namespace
        if native is not None:
            self.native_ns[name] = native
        return sf

    def spec_fact(self, spec_name, fact_name, text):
        """A fact about a spec function, over its parameters; instantiated like the definition."""
        sf = self.specs[spec_name]
        st = State()
        for n, p in sf.params:
            st.env[n] = SV(smt.Var(n, self.tenv.sort(p)), p)
        fx = FnExec(self, None, None, spec_mode=True)
        t = self.ops.term(fx.eval(parse_expr(text), st), BOOL)
        self.ctx.specs[spec_name].facts.append((fact_name, t))

    def axiom(self, name, text, note=None, keys=None):
        fx = FnExec(self, None, None, spec_mode=True)
        t = self.ops.term(fx.eval(parse_expr(text), State()), BOOL)
        self.ctx.add_axiom(name, t, keys=keys)
        if not hasattr(self, "axiom_texts"):
            self.axiom_texts = {}
        self.axiom_texts[name] = " ".join(text.split())
        self.assumptions.append(f"axiom {name}: {' '.join(text.split())}" + (f" ({note})" if note else ""))

    # ------------------------------------------------------------------ source access
    def module_ast(self, module):
        if module not in self._ast_cache:
            path = os.path.join(self.src_root, *module.split(".")) + ".py"
            src = open(path).read()
            self._ast_cache[module] = (ast.parse(src), hashlib.sha256(src.encode()).hexdigest()[:16], path)
        return self._ast_cache[module]

    def find_function(self, target):
        module, qual = target.split("@")[0].split(":")
        tree, sha, path = self.module_ast(module)
        node = tree
        for part in qual.split("."):
            found = None
            cands = [n for n in node.body if isinstance(n, (ast.FunctionDef, ast.ClassDef)) and n.name == part]
            # skip @overload stubs: take the last definition
            if cands:
                found = cands[-1]
            if found is None:
                raise Unsupported(f"binding drift: {target} not found in {path}")
            node = found
        if not isinstance(node, ast.FunctionDef):
            raise Unsupported(f"{target} is not a function")
        return node, sha, path

    def new_oid(self):
        return next(self._oid)

    # ------------------------------------------------------------------ verification entry
    def verify(self, target) -> "FnExec":
        c = self.registry.contracts[target]
        fx = FnExec(self, c, None)
        fx.run()
        return fx


def _split_top(s):
    out, depth, cur = [], 0, ""
    for ch in s:
        if ch in "[(":
            depth += 1
        if ch in "])":
            depth -= 1
        if ch == "," and depth == 0:
            out.append(cur)
            cur = ""
        else:
            cur += ch
    if cur.strip():
        out.append(cur)
    return out


from .fnexec import FnExec  # noqa: E402  (circular by design)
