"""Expression evaluation for the symbolic executor."""
from __future__ import annotations
import ast

from . import smt
from .types import PT, INT, BOOL, EXT, NONE, STR, Opt, Seq, Set, Arr, Map, Tup
from .values import (
    SV,
    ObjRef,
    OptRef,
    View,
    StaticRec,
    StaticRecClass,
    EnumVal,
    EnumClass,
    RecordClass,
    ObjClass,
    Closure,
    SpecFun,
    Builtin,
    BoundMethod,
    UFun,
    Unsupported,
)


class ExprMixin:
    # ------------------------------------------------------------------ names
    def lookup(self, name, st):
        if name in st.env:
            return st.env[name]
        if self.c is not None and name in self.c.globals:
            g = self.c.globals[name]
            if isinstance(g, str) and g.startswith("="):
                return self.eval(ast.parse(g[1:].strip(), mode="eval").body, st)
            return g
        if name in self.E.globals:
            return self.E.globals[name]
        if self.c is not None and name in getattr(self.c, "inline_calls", ()):
            # a module-level helper of the verified function's own module, inlined from its real source (single-return bodies only)
            mod = self.E.module_ast(self.c.module)[0]
            for n in mod.body:
                if isinstance(n, ast.FunctionDef) and n.name == name:
                    return Closure(n, {}, name)
            raise Unsupported(f"inline helper {name!r} not found in {self.c.module}")
        cs = self.E.registry.by_func.get(name)
        if cs:
            from .calls import Contract_

            same = [c for c in cs if self.c is not None and c.module == self.c.module]
            return Contract_((same or cs)[0])
        raise Unsupported(f"unknown name {name!r} (line {self.cur_line})")

    # ------------------------------------------------------------------ main dispatch
    def eval(self, node, st, want=None):
        m = getattr(self, "ev_" + type(node).__name__, None)
        if m is None:
            raise Unsupported(f"expression {type(node).__name__} (line {getattr(node, 'lineno', '?')})")
        if hasattr(node, "lineno") and not self.spec_mode:
            self.cur_line = node.lineno
        return m(node, st, want)

    def ev_Constant(self, node, st, want):
        v = node.value
        if isinstance(v, (bool, int, str)) or v is None:
            return v
        raise Unsupported(f"constant {v!r}")

    def ev_Name(self, node, st, want):
        return self.lookup(node.id, st)

    def ev_JoinedStr(self, node, st, want):
        return SV(self.ctx.fresh_const("fstr", self.tenv.sort(STR)), STR)

    def ev_Tuple(self, node, st, want):
        out = []
        for i, e in enumerate(node.elts):
            if isinstance(e, ast.Starred):
                v = self.eval(e.value, st)
                out.extend(self.concrete_items(v, st))
            else:
                w = want.args[i] if (want is not None and want.kind == "tuple" and i < len(want.args)) else None
                out.append(self.eval(e, st, w))
        return tuple(out)

    def ev_List(self, node, st, want):
        w = want.args[0] if (want is not None and want.kind in ("seq", "arr")) else None
        items = [self.eval(e, st, w) for e in node.elts]
        if want is not None and want.kind == "seq":
            return self.list_to_sv(items, want)
        return items

    def ev_Set(self, node, st, want):
        items = [self.eval(e, st) for e in node.elts]
        ept = want.args[0] if (want is not None and want.kind == "set") else self.ops.pt_of(items[0])
        items = [self.narrow(i, ept, st) for i in items]
        return self.set_of(items, Set(ept))

    def set_of(self, items, spt):
        es = self.tenv.sort(spt.args[0])
        arr = smt.ConstArray(smt.ArraySort(es, "Bool"), smt.FALSE)
        for it in items:
            arr = smt.Store(arr, self.ops.term(it, spt.args[0]), smt.TRUE)
        return SV(arr, spt)

    def list_to_sv(self, items, want):
        if isinstance(items, SV):
            return items
        ept = want.args[0]
        es = self.tenv.sort(ept)
        if want.kind == "seq":
            t = smt.SeqEmpty(es)
            for it in items:
                t = smt.SeqConcat(t, smt.SeqUnit(self.ops.term(it, ept)))
            return SV(t, want)
        if want.kind == "arr":
            data = self.ctx.fresh_const("arr0", smt.ArraySort("Int", es))
            for i, it in enumerate(items):
                data = smt.Store(data, smt.Int(i), self.ops.term(it, ept))
            return self.ops.mk_arr(want, smt.Int(len(items)), data)
        raise Unsupported(f"list literal as {want}")

    def ev_Dict(self, node, st, want):
        if want is not None and want.kind == "map":
            m = self.empty_map(want)
            for k, v in zip(node.keys, node.values):
                kt = self.ops.term(self.eval(k, st), want.args[0])
                vt = self.ops.term(self.eval(v, st, want.args[1]), want.args[1])
                m = self.ops.mk_map(want, smt.Store(self.ops.map_dom(m), kt, smt.TRUE), smt.Store(self.ops.map_val(m), kt, vt))
            return m
        if not node.keys:
            return {}
        out = {}
        for k, v in zip(node.keys, node.values):
            kv = self.eval(k, st)
            if not isinstance(kv, (EnumVal, int, str)):
                raise Unsupported("dict literal with symbolic keys needs a Map[...] typed target")
            out[kv] = self.eval(v, st)
        return out

    def ev_DictComp(self, node, st, want):
        """{n: <constant collection> for n in tree.traverse()}: a map defined on exactly the nodes of the subtree."""
        if len(node.generators) != 1 or node.generators[0].ifs or not isinstance(node.generators[0].target, ast.Name):
            raise Unsupported("dict comprehension shape")
        if want is None or want.kind != "map":
            raise Unsupported("dict comprehension needs a Map[...] typed target")
        itv = self.eval(node.generators[0].iter, st)
        over_keys = isinstance(itv, SV) and itv.pt.kind in ("map", "set") and itv.pt.args[0] == want.args[0]
        if not (isinstance(itv, tuple) and itv and itv[0] == "#traverse") and not over_keys:
            raise Unsupported("dict comprehension over other than a tree traversal, a dict or a set")
        if ast.unparse(node.key) != node.generators[0].target.id:
            raise Unsupported("dict comprehension key must be the loop variable")
        root = itv[1] if not over_keys else None
        ks = self.tenv.sort(want.args[0])
        x = smt.Var(smt.fresh_name("n"), ks)
        sub = st.fork()
        sub.env[node.generators[0].target.id] = SV(x, want.args[0])
        saved = self.spec_mode
        self.spec_mode = True
        try:
            val = self.eval(node.value, sub, want.args[1])
        finally:
            self.spec_mode = saved
        if isinstance(val, tuple) and val and val[0] == "#emptyset":
            val = self.set_of([], want.args[1])
        r = self.fresh("dictcomp", want, st)
        if over_keys:
            # {k: v for k in d}: defined on exactly the keys of d (members of the set)
            anc = smt.Select(self.ops.map_dom(itv) if itv.pt.kind == "map" else itv.term, x)
        else:
            anc = self.ctx.app("anc", self.ops.term(root), x)
        st.assume(smt.Forall([(x.args[0], ks)], smt.Eq(smt.Select(self.ops.map_dom(r), x), anc)))
        st.assume(smt.Forall([(x.args[0], ks)], smt.Implies(anc, smt.Eq(smt.Select(self.ops.map_val(r), x), self.ops.term(val, want.args[1])))))
        return r

    def ev_Lambda(self, node, st, want):
        return Closure(node, st.env, "<lambda>")

    def ev_IfExp(self, node, st, want):
        c = self.ops.truthy(self.eval(node.test, st))
        if c.op == "true":
            return self.eval(node.body, st, want)
        if c.op == "false":
            return self.eval(node.orelse, st, want)
        n = len(st.pc)
        st.pc.append(c)
        a = self.narrow(self.eval(node.body, st, want), want, st)
        self._pop_guard(st, n)
        n = len(st.pc)  # facts learnt in the first branch stay (guarded) below the second guard
        st.pc.append(smt.Not(c))
        b = self.narrow(self.eval(node.orelse, st, want), want, st)
        self._pop_guard(st, n)
        if isinstance(a, list) or isinstance(b, list):
            w = want or (a.pt if isinstance(a, SV) else b.pt if isinstance(b, SV) else None)
            if w is None:
                raise Unsupported("if-expression over list literals without a type")
            a, b = self.list_to_sv(a, w), self.list_to_sv(b, w)
        if isinstance(a, ObjRef) or isinstance(b, ObjRef):
            raise Unsupported("if-expression joining heap objects")
        return self.ops.ite_val(c, a, b)

    def _pop_guard(self, st, n):
        """Remove the temporary guard st.pc[n]; facts learnt under it (callee postconditions) stay, guarded."""
        guard = st.pc[n]
        tail = st.pc[n + 1:]
        del st.pc[n:]
        for f in tail:
            st.pc.append(smt.Implies(guard, f))

    def narrow(self, v, want, st):
        """Opt[T] -> T where T is wanted: safe only if the value is not None on this path (obligation)."""
        if want is not None and isinstance(v, SV) and v.pt.kind == "opt" and v.pt.args[0] == want:
            self.safety(st, self.ops.opt_is_some(v), "value is not None here")
            return self.ops.opt_the(v)
        return v

    def ev_BoolOp(self, node, st, want):
        is_and = isinstance(node.op, ast.And)
        terms = []
        n = len(st.pc)
        guards = []
        for v in node.values:
            g = smt.And(*guards)
            m = len(st.pc)
            st.pc.append(g)
            t = self.ops.truthy(self.eval(v, st))
            self._pop_guard(st, m)
            terms.append(t)
            guards.append(t if is_and else smt.Not(t))
        return SV(smt.And(*terms) if is_and else smt.Or(*terms), BOOL)

    def ev_UnaryOp(self, node, st, want):
        v = self.eval(node.operand, st)
        if isinstance(node.op, ast.Not):
            return SV(smt.Not(self.ops.truthy(v)), BOOL)
        if isinstance(node.op, ast.USub):
            if isinstance(v, int) and not isinstance(v, bool):
                return -v
            pt = self.ops.pt_of(v)
            if pt.kind == "int":
                return SV(smt.Neg(self.ops.term(v)), INT)
            if pt.kind == "ext":
                t = self.ops.term(v)
                return SV(
                    smt.Ite(
                        self.ops.is_fin(t),
                        smt.App("Fin", (smt.Neg(self.ops.fin_v(t)),), "Ext"),
                        smt.Ite(self.ops.is_ctor(t, "PInf"), smt.Const("NInf", "Ext"), smt.Const("PInf", "Ext")),
                    ),
                    EXT,
                )
        raise Unsupported(f"unary {type(node.op).__name__}")

    # ------------------------------------------------------------------ binary operators
    def ev_BinOp(self, node, st, want):
        a = self.eval(node.left, st, want if isinstance(node.op, ast.Add) and want is not None and want.kind == "seq" else None)
        b = self.eval(node.right, st, want if isinstance(node.op, ast.Add) and want is not None and want.kind == "seq" else None)
        return self.binop(node.op, a, b, st, want)

    def pow2(self, k):
        return self.ctx.app("pow2", k)

    def binop(self, op, a, b, st, want=None):
        ops = self.ops
        obl = (lambda t, what: self.safety(st, t, what))
        if isinstance(a, int) and isinstance(b, int) and not isinstance(a, bool) and not isinstance(b, bool):
            try:
                return {
                    ast.Add: lambda: a + b,
                    ast.Sub: lambda: a - b,
                    ast.Mult: lambda: a * b,
                    ast.FloorDiv: lambda: a // b,
                    ast.Mod: lambda: a % b,
                    ast.Pow: lambda: a**b,
                    ast.LShift: lambda: a << b,
                    ast.RShift: lambda: a >> b,
                    ast.BitAnd: lambda: a & b,
                    ast.BitOr: lambda: a | b,
                }[type(op)]()
            except KeyError:
                raise Unsupported(f"operator {type(op).__name__}")
        # sequences / lists
        if isinstance(op, ast.Add) and (isinstance(a, (list, tuple)) or isinstance(b, (list, tuple)) or self._is_kind(a, "seq") or self._is_kind(b, "seq")):
            if isinstance(a, tuple) and isinstance(b, tuple):
                return a + b
            if isinstance(a, list) and isinstance(b, list):
                return a + b
            spt = a.pt if self._is_kind(a, "seq") else b.pt if self._is_kind(b, "seq") else want
            if spt is None:
                raise Unsupported("list concatenation without a type")
            A = self.list_to_sv(list(a) if isinstance(a, (list, tuple)) else a, spt)
            B = self.list_to_sv(list(b) if isinstance(b, (list, tuple)) else b, spt)
            return SV(smt.SeqConcat(A.term, B.term), spt)
        if self._is_kind(a, "set") or self._is_kind(b, "set"):
            return self.set_binop(op, a, b, st)
        if isinstance(op, ast.Add):
            return ops.binop("+", a, b, obl)
        if isinstance(op, ast.Sub):
            return ops.binop("-", a, b, obl)
        if isinstance(op, ast.Mult):
            if isinstance(a, list) and len(a) == 1:
                return self.list_repeat(a[0], b, st, want)
            return ops.binop("*", a, b, obl)
        if isinstance(op, ast.FloorDiv):
            return ops.binop("//", a, b, obl)
        if isinstance(op, ast.Mod):
            return ops.binop("%", a, b, obl)
        if isinstance(op, (ast.Pow, ast.LShift)):
            base, k = (a, b) if isinstance(op, ast.Pow) else (2, b)
            if isinstance(op, ast.LShift):
                kt = ops.term(b, INT)
                self.safety(st, smt.Ge(kt, smt.Int(0)), "shift count non-negative")
                p = SV(self.pow2(kt), INT)
                return ops.binop("*", a, p, obl)
            if base == 2:
                kt = ops.term(k, INT)
                self.safety(st, smt.Ge(kt, smt.Int(0)), "exponent non-negative")
                return SV(self.pow2(kt), INT)
            raise Unsupported("power with base other than 2")
        if isinstance(op, ast.RShift):
            kt = ops.term(b, INT)
            at = ops.term(a, INT)
            self.safety(st, smt.Ge(kt, smt.Int(0)), "shift count non-negative")
            self.safety(st, smt.Ge(at, smt.Int(0)), "right shift of a non-negative integer (only case modelled)")
            if kt.op == "#int":
                return SV(smt.Div(at, smt.Int(2 ** kt.args[0])), INT)
            return SV(smt.Div(at, self.pow2(kt)), INT)
        if isinstance(op, ast.BitAnd):
            for x, y in ((a, b), (b, a)):
                if isinstance(y, int) and y == 1:
                    xt = ops.term(x, INT)
                    self.safety(st, smt.Ge(xt, smt.Int(0)), "x & 1 on a non-negative integer (only case modelled)")
                    return SV(smt.Mod(xt, smt.Int(2)), INT)
            raise Unsupported("bitwise and other than x & 1")
        if isinstance(op, ast.BitOr):
            # a | (1 << k)  with bit k of a clear  ==  a + 2**k ; obligation: (a div 2**k) mod 2 == 0
            at, bt = ops.term(a, INT), ops.term(b, INT)
            k = self._pow2_exponent(bt)
            if k is None:
                raise Unsupported("bitwise or whose right operand is not 1 << k")
            self.safety(st, smt.Ge(at, smt.Int(0)), "x | m on a non-negative integer (only case modelled)")
            self.safety(st, smt.Eq(smt.Mod(smt.Div(at, self.pow2(k)), smt.Int(2)), smt.Int(0)), "bit k clear before x | (1 << k) (only case modelled)")
            return SV(smt.Add(at, bt), INT)
        raise Unsupported(f"operator {type(op).__name__}")

    def _pow2_exponent(self, t):
        if t.op == "pow2":
            return t.args[0]
        if t.op == "#int" and t.args[0] > 0 and t.args[0] & (t.args[0] - 1) == 0:
            return smt.Int(t.args[0].bit_length() - 1)
        return None

    def _is_kind(self, v, kind):
        return isinstance(v, SV) and v.pt.kind == kind

    def list_repeat(self, item, count, st, want):
        # [x] * n  ->  array of length n filled with x
        ipt = self.ops.pt_of(item)
        if want is not None and want.kind == "arr":
            apt = want
        else:
            apt = Arr(Opt(ipt) if ipt.kind == "none" else ipt)
        ept = apt.args[0]
        es = self.tenv.sort(ept)
        n = self.ops.term(count, INT)
        data = smt.ConstArray(smt.ArraySort("Int", es), self.ops.term(item, ept))
        return self.ops.mk_arr(apt, smt.Ite(smt.Ge(n, smt.Int(0)), n, smt.Int(0)), data)

    def set_binop(self, op, a, b, st):
        spt = a.pt if self._is_kind(a, "set") else b.pt
        es = self.tenv.sort(spt.args[0])
        A, B = self.ops.term(a, spt), self.ops.term(b, spt)
        # s | {x, ...} and s - {x, ...} with a set display on the right: exact as array updates (no auxiliary set, usable under binders)
        lits, cur = [], B
        while cur.op == "store" and cur.args[2] == smt.TRUE:
            lits.append(cur.args[1])
            cur = cur.args[0]
        if cur.op == "#constarr" and cur.args[0] == smt.FALSE and lits and isinstance(op, (ast.BitOr, ast.Sub)):
            out = A
            for it in reversed(lits):
                out = smt.Store(out, it, smt.TRUE if isinstance(op, ast.BitOr) else smt.FALSE)
            return SV(out, spt)
        x = smt.Var(smt.fresh_name("e"), es)
        r = self.fresh("setop", spt, st)
        ina, inb, inr = smt.Select(A, x), smt.Select(B, x), smt.Select(r.term, x)
        if isinstance(op, ast.BitOr):
            body = smt.Eq(inr, smt.Or(ina, inb))
        elif isinstance(op, ast.BitAnd):
            body = smt.Eq(inr, smt.And(ina, inb))
        elif isinstance(op, ast.Sub):
            body = smt.Eq(inr, smt.And(ina, smt.Not(inb)))
        else:
            raise Unsupported("set operator")
        st.assume(smt.Forall([(x.args[0], es)], body, patterns=((inr,),)))
        return r

    # ------------------------------------------------------------------ comparisons
    def ev_Compare(self, node, st, want):
        left = self.eval(node.left, st)
        terms = []
        for op, rn in zip(node.ops, node.comparators):
            right = self.eval(rn, st)
            terms.append(self.compare(op, left, right, st))
            left = right
        return SV(smt.And(*terms), BOOL)

    def compare(self, op, a, b, st):
        ops = self.ops
        if isinstance(op, (ast.Eq, ast.NotEq)):
            t = ops.eq(a, b)
            return t if isinstance(op, ast.Eq) else smt.Not(t)
        if isinstance(op, (ast.Is, ast.IsNot)):
            if b is None or a is None:
                x = a if b is None else b
                if x is None:
                    t = smt.TRUE
                elif isinstance(x, OptRef):
                    t = smt.Not(x.present)
                elif isinstance(x, SV) and x.pt.kind == "opt":
                    t = smt.Not(ops.opt_is_some(x))
                elif isinstance(x, SV) and x.pt.kind == "none":
                    t = smt.TRUE
                else:
                    t = smt.FALSE
            else:
                t = ops.eq(a, b)
            return t if isinstance(op, ast.Is) else smt.Not(t)
        if isinstance(op, (ast.In, ast.NotIn)):
            t = self.contains(b, a, st)
            return t if isinstance(op, ast.In) else smt.Not(t)
        if self._is_kind(a, "set") and self._is_kind(b, "set") and isinstance(op, ast.LtE):
            es = self.tenv.sort(a.pt.args[0])
            x = smt.Var(smt.fresh_name("e"), es)
            q = smt.Forall([(x.args[0], es)], smt.Implies(smt.Select(a.term, x), smt.Select(b.term, x)),
                           patterns=((smt.Select(a.term, x),), (smt.Select(b.term, x),)))
            if self.spec_mode:
                return q
            # name the quantified fact by a boolean: b => forall ...,  not b => a skolem witness violates it
            bconst = self.ctx.fresh_const("subset", "Bool")
            sk = self.ctx.fresh_const("sk", es)
            st.assume(smt.Implies(bconst, q))
            st.assume(smt.Implies(smt.Not(bconst), smt.And(smt.Select(a.term, sk), smt.Not(smt.Select(b.term, sk)))))
            return bconst
        sym = {ast.Lt: "<", ast.LtE: "<=", ast.Gt: ">", ast.GtE: ">="}.get(type(op))
        if sym is None:
            raise Unsupported(f"comparison {type(op).__name__}")
        if isinstance(a, int) and isinstance(b, int):
            return smt.Bool(eval(f"a {sym} b"))
        return ops.compare(sym, a, b)

    def contains(self, coll, item, st):
        ops = self.ops
        if isinstance(coll, (tuple, list)):
            return smt.Or(*[ops.eq(item, x) for x in coll])
        if isinstance(coll, dict):
            return smt.Or(*[ops.eq(item, k) for k in coll])
        if isinstance(coll, SV):
            k = coll.pt.kind
            if k == "set":
                return smt.Select(coll.term, ops.term(item, coll.pt.args[0]))
            if k == "map":
                return smt.Select(ops.map_dom(coll), ops.term(item, coll.pt.args[0]))
            if k == "seq":
                it = ops.term(item, coll.pt.args[0])
                return ops.seq_mem(coll.term, it)
        raise Unsupported(f"membership in {coll!r}")

    # ------------------------------------------------------------------ attribute / subscript
    def ev_Attribute(self, node, st, want):
        base = self.eval(node.value, st)
        return self.getattr(base, node.attr, st)

    def getattr(self, base, attr, st):
        if isinstance(base, OptRef):
            if not self.spec_mode:
                self.safety(st, base.present, "attribute of an Optional object that is not None")
            base = base.ref
        if isinstance(base, ObjRef):
            fields = st.heap[base.oid]
            if attr in fields:
                return fields[attr]
            return BoundMethod(base, attr)
        if isinstance(base, EnumClass):
            if attr in base.members:
                return EnumVal(base.name, attr)
            if attr == "__members__":
                return {m: EnumVal(base.name, m) for m in base.members}
            raise Unsupported(f"enum {base.name} has no member {attr}")
        if isinstance(base, StaticRecClass):
            if attr == "_fields":
                return base.fields
            if attr == "_make":
                return BoundMethod(base, "_make")
        if isinstance(base, StaticRec):
            if attr in base:
                return base[attr]
            raise Unsupported(f"record has no field {attr}")
        if isinstance(base, RecordClass):
            if attr == "_fields":
                return tuple(f for f, _ in base.fields)
            if attr == "_make":
                return BoundMethod(base, "_make")
        if isinstance(base, SV):
            ra = getattr(self.E, "ref_attrs", {})
            if base.pt.kind == "ref" and (base.pt.name, attr) in ra:
                sf = self.E.specs[ra[(base.pt.name, attr)]]
                return SV(self.ctx.app(sf.name, base.term), sf.ret)
            if base.pt.kind == "rec":
                for f, _ in self.tenv.records[base.pt.name]:
                    if f == attr:
                        return self.ops.rec_field(base, attr)
            if base.pt.kind == "ref" and attr != "traverse" and not self.E.registry.by_method.get((base.pt.name, attr)):
                raise Unsupported(f"unmodelled attribute .{attr} of a {base.pt.name} (line {self.cur_line})")
            return BoundMethod(base, attr)
        if isinstance(base, dict) and attr in base and isinstance(attr, str) and base.get("__module__"):
            return base[attr]  # function of an imported module registered by a contract file
        if isinstance(base, (list, tuple, dict, int, View, str)):
            return BoundMethod(base, attr)
        raise Unsupported(f"attribute {attr} of {base!r}")

    def ev_Subscript(self, node, st, want):
        base = self.eval(node.value, st)
        if isinstance(node.slice, ast.Slice):
            return self.slice(base, node.slice, st)
        idx = self.eval(node.slice, st)
        if not isinstance(node.slice, (ast.Name, ast.Constant)):
            # a computed subscript (e.g. the result of a call) is evaluated once per statement: a store through the same
            # subscript expression (x[f(y)].add(z)) must address the element that was read
            self._idx_cache[id(node.slice)] = idx
        return self.index(base, idx, st)

    def index(self, base, idx, st):
        ops = self.ops
        if isinstance(base, (tuple, list)):
            if isinstance(idx, int):
                if not -len(base) <= idx < len(base):
                    self.safety(st, smt.FALSE, "tuple index in range")
                    raise Unsupported("constant index out of range")
                return base[idx]
            it = ops.term(idx, INT)
            if not base:
                raise Unsupported("indexing an empty tuple")
            self.safety(st, smt.And(smt.Le(smt.Int(0), it), smt.Lt(it, smt.Int(len(base)))), "index in range (non-negative)")
            out = base[-1]
            for j in range(len(base) - 2, -1, -1):
                out = ops.ite_val(smt.Eq(it, smt.Int(j)), base[j], out)
            return out
        if isinstance(base, dict):
            if isinstance(idx, (EnumVal, int, str)):
                if idx not in base:
                    self.safety(st, smt.FALSE, "key present")
                    raise Unsupported("missing constant key")
                return base[idx]
            raise Unsupported("symbolic key into a concrete dict")
        if isinstance(base, View):
            return View(base.obj, base.keys + (idx,))
        if isinstance(base, ObjRef) and base.cls in getattr(self.E, "view_classes", ()):
            return View(base, (idx,))
        if isinstance(base, ObjRef):
            return self.call_method(base, "__getitem__", [idx], {}, st)
        if isinstance(base, SV):
            k = base.pt.kind
            if k == "seq":
                ln = smt.SeqLen(base.term)
                if isinstance(idx, int) and idx < 0:
                    self.safety(st, smt.Ge(ln, smt.Int(-idx)), "negative index in range")
                    it = smt.Add(ln, smt.Int(idx))
                else:
                    it = ops.term(idx, INT)
                    self.safety(st, smt.And(smt.Le(smt.Int(0), it), smt.Lt(it, ln)), "sequence index in range (non-negative)")
                return SV(smt.SeqNth(base.term, it), base.pt.args[0])
            if k == "arr":
                it = ops.term(idx, INT)
                self.safety(st, smt.And(smt.Le(smt.Int(0), it), smt.Lt(it, ops.arr_len(base))), "list index in range (non-negative)")
                return SV(smt.Select(ops.arr_data(base), it), base.pt.args[0])
            if k == "map":
                kt = ops.term(idx, base.pt.args[0])
                if base.pt.name != "default":
                    self.safety(st, smt.Select(ops.map_dom(base), kt), "key present")
                return SV(smt.Select(ops.map_val(base), kt), base.pt.args[1])
            if k == "tuple":
                if isinstance(idx, int):
                    return ops.tuple_item(base, idx)
        raise Unsupported(f"subscript of {base!r}")

    def slice(self, base, sl, st):
        ops = self.ops
        if sl.step is not None:
            raise Unsupported("slice step")
        lo = self.eval(sl.lower, st) if sl.lower is not None else 0
        hi = self.eval(sl.upper, st) if sl.upper is not None else None
        if isinstance(base, (tuple, list)) and isinstance(lo, int) and (hi is None or isinstance(hi, int)):
            return base[lo:hi]
        if self._is_kind(base, "seq"):
            ln = smt.SeqLen(base.term)

            def norm(x, default):
                if x is None:
                    return default
                if isinstance(x, int) and x < 0:
                    return smt.Ite(smt.Ge(smt.Add(ln, smt.Int(x)), smt.Int(0)), smt.Add(ln, smt.Int(x)), smt.Int(0))
                t = ops.term(x, INT)
                if not self.spec_mode:
                    self.safety(st, smt.Ge(t, smt.Int(0)), "slice bound non-negative (only case modelled)")
                return smt.Ite(smt.Le(t, ln), t, ln)

            a, b = norm(lo, smt.Int(0)), norm(hi, ln)
            cnt = smt.Ite(smt.Ge(smt.Sub(b, a), smt.Int(0)), smt.Sub(b, a), smt.Int(0))
            return SV(smt.SeqExtract(base.term, a, cnt), base.pt)
        raise Unsupported(f"slice of {base!r}")

    # ------------------------------------------------------------------ comprehension (only over statically known collections)
    def concrete_items(self, v, st):
        if isinstance(v, (tuple, list)):
            return list(v)
        if isinstance(v, range):
            return list(v)
        if isinstance(v, EnumClass):
            return [EnumVal(v.name, m) for m in v.members]
        if isinstance(v, dict):
            return list(v.keys())
        if isinstance(v, SV) and v.pt.kind == "seq" and v.term.op == "kids":
            # node.children of an internal node of a binary tree: exactly two items (the arity is an obligation)
            self.safety(st, smt.Eq(smt.SeqLen(v.term), smt.Int(2)), "children of an internal node of a binary tree are two")
            return [SV(smt.SeqNth(v.term, smt.Int(j)), v.pt.args[0]) for j in range(2)]
        raise Unsupported(f"iteration over non-static collection {v!r}")

    def ev_GeneratorExp(self, node, st, want):
        return tuple(self._comp(node, st))

    def ev_ListComp(self, node, st, want):
        if len(node.generators) == 1 and not node.generators[0].ifs:
            itv = self.eval(node.generators[0].iter, st)
            if isinstance(itv, tuple) and itv and itv[0] == "#range" and len(itv) == 2:
                return self.symbolic_listcomp(node, itv[1], st, want)
        if len(node.generators) == 1 and node.generators[0].ifs and want is not None and want.kind in ("arr", "seq"):
            itv = self.eval(node.generators[0].iter, st)
            if isinstance(itv, SV) and itv.pt.kind in ("arr", "seq"):
                return self.filtered_listcomp(node, itv, st, want)
        return self._comp(node, st)

    def filtered_listcomp(self, node, src, st, want):
        """[elt(x) for x in xs if cond(x)] over a symbolic list: the result is the unique list `out` for which there is a strictly
        increasing map f from its positions onto the positions of xs that satisfy cond, with out[j] = elt(xs[f(j)])."""
        ops = self.ops
        gen = node.generators[0]
        if src.pt.kind == "arr":
            n, at = ops.arr_len(src), (lambda i: SV(smt.Select(ops.arr_data(src), i), src.pt.args[0]))
        else:
            n, at = smt.SeqLen(src.term), (lambda i: SV(smt.SeqNth(src.term, i), src.pt.args[0]))
        out = self.fresh("filtered", want, st)
        if want.kind == "arr":
            m, oat = ops.arr_len(out), (lambda j: smt.Select(ops.arr_data(out), j))
        else:
            m, oat = smt.SeqLen(out.term), (lambda j: smt.SeqNth(out.term, j))
        tag = smt.fresh_name("flt")
        f, finv = f"pos_{tag}", f"inv_{tag}"
        self.ctx.declare_fun(f, ["Int"], "Int")
        self.ctx.declare_fun(finv, ["Int"], "Int")

        def at_index(ix):
            sub = st.fork()
            self.assign_target(gen.target, at(ix), sub)
            saved = self.spec_mode
            self.spec_mode = True
            try:
                cond = smt.And(*[ops.truthy(self.eval(c, sub)) for c in gen.ifs])
                elt = self.eval(node.elt, sub, want.args[0])
            finally:
                self.spec_mode = saved
            return cond, ops.term(elt, want.args[0])

        j, j2, i = smt.Var(smt.fresh_name("j"), "Int"), smt.Var(smt.fresh_name("j"), "Int"), smt.Var(smt.fresh_name("i"), "Int")
        fj, fj2, gi = self.ctx.app(f, j), self.ctx.app(f, j2), self.ctx.app(finv, i)
        cond_f, elt_f = at_index(fj)
        cond_i, _ = at_index(i)
        zero = smt.Int(0)
        st.assume(smt.And(smt.Le(zero, m), smt.Le(m, n)))
        st.assume(smt.Forall([(j.args[0], "Int")], smt.Implies(smt.And(smt.Le(zero, j), smt.Lt(j, m)),
                  smt.And(smt.Le(zero, fj), smt.Lt(fj, n), cond_f, smt.Eq(oat(j), elt_f), smt.Eq(self.ctx.app(finv, fj), j))), patterns=((fj,), (oat(j),))))
        st.assume(smt.Forall([(j.args[0], "Int"), (j2.args[0], "Int")], smt.Implies(smt.And(smt.Le(zero, j), smt.Lt(j, j2), smt.Lt(j2, m)), smt.Lt(fj, fj2)), patterns=((fj, fj2),)))
        st.assume(smt.Forall([(i.args[0], "Int")], smt.Implies(smt.And(smt.Le(zero, i), smt.Lt(i, n), cond_i),
                  smt.And(smt.Le(zero, gi), smt.Lt(gi, m), smt.Eq(self.ctx.app(f, gi), i))), patterns=((gi,), (at(i).term,))))
        return out

    def symbolic_listcomp(self, node, count, st, want):
        """[elt for v in range(n)] with symbolic n: a fresh list r with len(r) = max(n,0), r[i] = elt(i)."""
        if want is None or want.kind != "arr":
            raise Unsupported("list comprehension over a symbolic range needs an Arr[...] typed target")
        n = self.ops.term(count, INT)
        r = self.fresh("listcomp", want, st)
        i = smt.Var(smt.fresh_name("i"), "Int")
        sub = st.fork()
        self.assign_target(node.generators[0].target, SV(i, INT), sub)
        saved = self.spec_mode
        self.spec_mode = True
        try:
            elt = self.eval(node.elt, sub, want.args[0])
        finally:
            self.spec_mode = saved
        if isinstance(elt, list):
            elt = self.list_to_sv(elt, want.args[0])
        st.assume(smt.Eq(self.ops.arr_len(r), smt.Ite(smt.Ge(n, smt.Int(0)), n, smt.Int(0))))
        st.assume(smt.Forall([(i.args[0], "Int")], smt.Implies(smt.And(smt.Le(smt.Int(0), i), smt.Lt(i, n)),
                                                           smt.Eq(smt.Select(self.ops.arr_data(r), i), self.ops.term(elt, want.args[0])))))
        return r

    def _comp(self, node, st):
        if len(node.generators) != 1:
            raise Unsupported("nested comprehension")
        g = node.generators[0]
        items = self.concrete_items(self.eval(g.iter, st), st)
        out = []
        saved = dict(st.env)
        for it in items:
            self.assign_target(g.target, it, st)
            ok = smt.TRUE
            for cond in g.ifs:
                ok = smt.And(ok, self.ops.truthy(self.eval(cond, st)))
            if ok.op == "false":
                continue
            if ok.op != "true":
                raise Unsupported("comprehension with symbolic filter")
            out.append(self.eval(node.elt, st))
        st.env = saved
        return out

    def ev_Starred(self, node, st, want):
        raise Unsupported("starred expression outside call/tuple")

    def ev_Call(self, node, st, want):
        return self.eval_call(node, st, want)
