"""Calls: builtins, spec functions, records, closures, contracted functions and methods."""
from __future__ import annotations
import ast

from . import smt
from .types import PT, INT, BOOL, EXT, NONE, STR, Opt, Seq, Set, Arr, Map, Tup
from .types import mangle
from .values import (
    SV,
    ObjRef,
    OptRef,
    View,
    StaticRec,
    StaticRecClass,
    EnumVal,
    EnumClass,
    RecordClass,
    ObjClass,
    Closure,
    SpecFun,
    Builtin,
    BoundMethod,
    UFun,
    Unsupported,
)
from .state import State
from .contracts import Clause, parse_expr

QUANT = ("forall", "exists")


class StarArg:
    def __init__(self, value):
        self.value = value


class CallMixin:
    # ------------------------------------------------------------------ entry
    def eval_call(self, node, st, want=None):
        fnode = node.func
        # quantifiers bind lambda parameters: handle before evaluating arguments
        if isinstance(fnode, ast.Name) and fnode.id in QUANT and fnode.id not in st.env:
            return self.eval_quant(fnode.id, node, st)
        if isinstance(fnode, ast.Name) and fnode.id == "old" and "old" not in st.env:
            if self.old_state is None:
                raise Unsupported("old() outside a contract")
            ost = self.old_state.fork()
            # bound variables of enclosing quantifiers and ghost names stay visible
            for k, v in st.env.items():
                if k not in ost.env:
                    ost.env[k] = v
            return self.eval(node.args[0], ost, want)
        if (isinstance(fnode, ast.Attribute) and isinstance(fnode.value, ast.Call) and isinstance(fnode.value.func, ast.Name)
                and fnode.value.func.id == "super" and not fnode.value.args):
            # super().m(...): the method of the declared parent class, on the same object
            me = st.env.get("self")
            parent = getattr(self.E, "parents", {}).get(me.cls if isinstance(me, ObjRef) else None)
            if parent is None:
                raise Unsupported("super() without a declared parent class")
            c = self.find_method_contract(parent, fnode.attr)
            if c is None:
                raise Unsupported(f"no contract for {parent}.{fnode.attr}")
            args, kwargs = self.eval_args(node, st)
            return self.apply_contract(c, me, args, kwargs, st, node)
        f = self.eval(fnode, st)
        args, kwargs = self.eval_args(node, st, f)
        return self.apply(f, args, kwargs, st, node, want)

    def eval_args(self, node, st, f=None):
        args = []
        nstar = 0
        for a in node.args:
            if isinstance(a, ast.Starred):
                v = self.eval(a.value, st)
                if not self.spec_mode:
                    st.env[f"star{nstar}"] = v  # ghost name for the temporary (used by before_call cuts)
                nstar += 1
                if isinstance(v, (tuple, list)):
                    args.extend(v)
                else:
                    args.append(StarArg(v))
            else:
                args.append(self.eval(a, st))
        kwargs = {}
        for kw in node.keywords:
            if kw.arg is None:
                raise Unsupported("**kwargs")
            kwargs[kw.arg] = self.eval(kw.value, st)
        return args, kwargs

    def eval_quant(self, which, node, st):
        lam = node.args[0]
        if not isinstance(lam, ast.Lambda):
            raise Unsupported("quantifier needs a lambda")
        names = [a.arg for a in lam.args.args]
        sorts = node.args[1:]
        if len(sorts) != len(names):
            raise Unsupported("quantifier: one type per bound variable")
        exp = self._expand_static_range(which, lam, names, sorts, st)
        if exp is not None:
            return exp
        st2 = st.fork()
        binders = []
        for n, sn in zip(names, sorts):
            pt = self.tenv.parse(ast.unparse(sn))
            vname = smt.fresh_name(n)
            srt = self.tenv.sort(pt)
            binders.append((vname, srt))
            st2.env[n] = SV(smt.Var(vname, srt), pt)
        saved = self.spec_mode
        self.spec_mode = True
        try:
            body = self.ops.truthy(self.eval(lam.body, st2))
            pats = None
            for kw in node.keywords:
                if kw.arg == "pat":
                    plist = kw.value.elts if isinstance(kw.value, (ast.List, ast.Tuple)) else [kw.value]
                    pats = tuple((self.ops.term(self.eval(p, st2)),) for p in plist)
                if kw.arg == "mpat":
                    plist = kw.value.elts
                    pats = (tuple(self.ops.term(self.eval(p, st2)) for p in plist),)
        finally:
            self.spec_mode = saved
        q = smt.Forall if which == "forall" else smt.Exists
        return SV(q(binders, body, patterns=pats), BOOL)

    def _expand_static_range(self, which, lam, names, sorts, st):
        """forall i: 0 <= i < len(X) => B   /   exists i: 0 <= i < len(X) and B   with X a statically known tuple:
        the finite conjunction / disjunction over i = 0 .. len(X)-1 (same meaning, no quantifier)."""
        if len(names) != 1 or ast.unparse(sorts[0]) != "Int":
            return None
        i = names[0]
        body = lam.body

        def bounds(e):
            # matches  0 <= i and i < len(NAME) [and rest...]  -> (NAME, rest list)
            if not (isinstance(e, ast.BoolOp) and isinstance(e.op, ast.And) and len(e.values) >= 2):
                return None
            a, b = e.values[0], e.values[1]
            if ast.unparse(a) != f"0 <= {i}":
                return None
            if not (isinstance(b, ast.Compare) and len(b.ops) == 1 and isinstance(b.ops[0], ast.Lt) and ast.unparse(b.left) == i
                    and isinstance(b.comparators[0], ast.Call) and ast.unparse(b.comparators[0].func) == "len" and len(b.comparators[0].args) == 1
                    and isinstance(b.comparators[0].args[0], ast.Name)):
                return None
            return b.comparators[0].args[0].id, e.values[2:]

        if which == "forall":
            if not (isinstance(body, ast.Call) and ast.unparse(body.func) == "implies" and len(body.args) == 2):
                return None
            m = bounds(body.args[0])
            if m is None or m[1]:
                return None
            name, inner = m[0], body.args[1]
        else:
            m = bounds(body)
            if m is None or not m[1]:
                return None
            name = m[0]
            inner = m[1][0] if len(m[1]) == 1 else ast.BoolOp(op=ast.And(), values=list(m[1]))
        xs = st.env.get(name)
        if not isinstance(xs, tuple) or (xs and xs[0] == "#emptyset"):
            return None
        saved = self.spec_mode
        self.spec_mode = True
        try:
            parts = []
            for j in range(len(xs)):
                st2 = st.fork()
                st2.env[i] = j
                parts.append(self.ops.truthy(self.eval(inner, st2)))
        finally:
            self.spec_mode = saved
        if which == "forall":
            return SV(smt.And(*parts) if parts else smt.TRUE, BOOL)
        return SV(smt.Or(*parts) if parts else smt.FALSE, BOOL)

    # ------------------------------------------------------------------ dispatch
    def apply(self, f, args, kwargs, st, node=None, want=None):
        if isinstance(f, Builtin):
            return self.call_builtin(f.name, args, kwargs, st, node, want)
        if isinstance(f, SpecFun):
            return self.call_spec(f, args, kwargs, st)
        if isinstance(f, RecordClass):
            return self.make_record(f, args, kwargs)
        if isinstance(f, ObjClass):
            return self.construct(f, args, kwargs, st)
        if isinstance(f, Closure):
            return self.call_closure(f, args, kwargs, st)
        if isinstance(f, UFun):
            ts = [self.ops.term(a, p) for a, p in zip(args, f.argpts)]
            self.ctx.declare_fun(f.name, [self.tenv.sort(p) for p in f.argpts], self.tenv.sort(f.retpt))
            return SV(self.ctx.app(f.name, *ts), f.retpt)
        if isinstance(f, BoundMethod):
            return self.call_method(f.recv, f.name, args, kwargs, st, node, want)
        if isinstance(f, Contract_):
            return self.apply_contract(f.c, None, args, kwargs, st, node)
        if isinstance(f, ObjRef):
            return self.call_method(f, "__call__", args, kwargs, st, node, want)
        from .stmts import GhostFun

        if isinstance(f, GhostFun):
            return f.fn(*args)
        raise Unsupported(f"call of {f!r}")

    def call_spec(self, f, args, kwargs, st):
        if kwargs:
            names = [n for n, _ in f.params]
            args = list(args) + [kwargs[n] for n in names[len(args):]]
        if len(args) != len(f.params):
            raise Unsupported(f"spec {f.name}: arity")
        ts = []
        for a, (n, p) in zip(args, f.params):
            if isinstance(a, list):
                a = self.list_to_sv(a, p)
            ts.append(self.ops.term(a, p))
        return SV(self.ctx.app(f.name, *ts), f.ret)

    def make_record(self, rc, args, kwargs):
        vals = []
        for i, (fname, fpt) in enumerate(rc.fields):
            if i < len(args):
                v = args[i]
            elif fname in kwargs:
                v = kwargs[fname]
            elif fname in rc.defaults:
                v = rc.defaults[fname]
            else:
                raise Unsupported(f"record {rc.name}: missing field {fname}")
            vals.append(self.ops.term(v, fpt))
        return SV(smt.App(f"mk_{rc.name}", vals, rc.name), PT("rec", name=rc.name))

    def call_closure(self, f, args, kwargs, st):
        node = f.node
        params = [a.arg for a in node.args.args]
        if len(args) != len(params) or kwargs:
            raise Unsupported("closure arity")
        env = dict(f.env)
        env.update(dict(zip(params, args)))
        sub = State()
        sub.env = env
        sub.heap = st.heap
        sub.pc = st.pc
        sub.writes = st.writes
        sub.param_oids = st.param_oids
        if isinstance(node, ast.Lambda):
            return self.eval(node.body, sub)
        body = [s for s in node.body if not (isinstance(s, ast.Expr) and isinstance(s.value, ast.Constant))]
        if len(body) == 1 and isinstance(body[0], ast.Return):
            return self.eval(body[0].value, sub)
        raise Unsupported("closure with a multi-statement body")

    # ------------------------------------------------------------------ builtins
    def call_builtin(self, name, args, kwargs, st, node, want):
        ops = self.ops
        if name == "len":
            (x,) = args
            if isinstance(x, (tuple, list, dict)):
                return len(x)
            if isinstance(x, ObjRef):
                return self.call_method(x, "__len__", [], {}, st, node)
            if isinstance(x, SV):
                if x.pt.kind == "seq":
                    return SV(smt.SeqLen(x.term), INT)
                if x.pt.kind == "arr":
                    return SV(ops.arr_len(x), INT)
                if x.pt.kind == "tuple":
                    return len(x.pt.args)
                if x.pt.kind == "map":
                    # len(dict): the cardinality of the key set - an uninterpreted function of the key set; what the contracts need of it
                    # (pigeonhole facts) is stated there as assumed lemmas
                    dom = ops.map_dom(x)
                    fn = "card_" + mangle(self.tenv.sort(x.pt.args[0]))
                    self.ctx.declare_fun(fn, [smt.ArraySort(self.tenv.sort(x.pt.args[0]), "Bool")], "Int")
                    return SV(self.ctx.app(fn, dom), INT)
            raise Unsupported(f"len of {x!r}")
        if name in ("min", "max"):
            if len(args) == 1 and isinstance(args[0], (tuple, list)):
                args = list(args[0])
            if len(args) < 2 or any(isinstance(a, StarArg) for a in args):
                raise Unsupported(f"{name} of a collection")
            if all(isinstance(a, int) and not isinstance(a, bool) for a in args):
                return min(args) if name == "min" else max(args)
            def nn(v):
                if isinstance(v, SV) and v.pt.kind == "opt":
                    self.safety(st, ops.opt_is_some(v), f"{name}() operand is not None")
                    return ops.opt_the(v)
                return v

            r = nn(args[0])
            for a in args[1:]:
                r = ops.minmax(name, r, nn(a))
            return r
        if name == "abs":
            (x,) = args
            t = ops.term(x, INT)
            return SV(smt.Ite(smt.Ge(t, smt.Int(0)), t, smt.Neg(t)), INT)
        if name == "range":
            if all(isinstance(a, int) for a in args):
                return range(*args)
            return ("#range",) + tuple(args)
        if name in ("enumerate", "zip", "product", "reversed", "sorted", "map"):
            return ("#" + name,) + tuple(args)
        if name == "isinstance":
            x, cls = args
            pt = ops.pt_of(x)
            if isinstance(cls, EnumClass):
                return pt.kind == "enum" and pt.name == cls.name
            if isinstance(cls, RecordClass):
                return pt.kind == "rec" and pt.name == cls.name
            if isinstance(cls, ObjClass):
                return isinstance(x, ObjRef) and x.cls == cls.name
            if isinstance(cls, Builtin) and cls.name in ("set", "frozenset", "list", "tuple", "dict", "int", "bool"):
                kinds = {"set": ("set",), "frozenset": ("set",), "list": ("seq", "arr"), "tuple": ("tuple",), "dict": ("map",), "int": ("int", "bool"), "bool": ("bool",)}[cls.name]
                if isinstance(x, (list, tuple, dict)) and not isinstance(x, SV):
                    return {list: "list", tuple: "tuple", dict: "dict"}[type(x)] == cls.name
                return pt.kind in kinds
            raise Unsupported("isinstance against an unmodelled class")
        if name == "the":
            (x,) = args
            return ops.opt_the(x)
        if name == "fin":
            (x,) = args
            return SV(ops.fin_v(ops.term(x, EXT)), INT)
        if name == "is_fin":
            (x,) = args
            return SV(ops.is_fin(ops.term(x, EXT)), BOOL)
        if name == "is_infinite":
            (x,) = args
            if ops.pt_of(x).kind == "int":
                return False
            return SV(smt.Not(ops.is_fin(ops.term(x, EXT))), BOOL)
        if name == "implies":
            a, b = args
            return SV(smt.Implies(ops.truthy(a), ops.truthy(b)), BOOL)
        if name == "iff":
            a, b = args
            return SV(smt.Eq(ops.truthy(a), ops.truthy(b)), BOOL)
        if name == "ite":
            c, a, b = args
            return ops.ite_val(ops.truthy(c), a, b)
        if name == "list":
            if not args:
                return []
            (x,) = args
            if isinstance(x, range):
                x = ("#range", x.start, x.stop) if x.step == 1 else x
            if isinstance(x, tuple) and x and x[0] == "#range":
                # list(range(n)) / list(range(a, b)): fresh list r with r[i] = a + i
                a = x[1:]
                lo, hi = (smt.Int(0), ops.term(a[0], INT)) if len(a) == 1 else (ops.term(a[0], INT), ops.term(a[1], INT))
                apt = want if (want is not None and want.kind == "arr") else Arr(INT)
                r = self.fresh("rangelist", apt, st)
                n = smt.Sub(hi, lo)
                i = smt.Var(smt.fresh_name("i"), "Int")
                st.assume(smt.Eq(ops.arr_len(r), smt.Ite(smt.Ge(n, smt.Int(0)), n, smt.Int(0))))
                st.assume(smt.Forall([(i.args[0], "Int")], smt.Implies(smt.And(smt.Le(smt.Int(0), i), smt.Lt(i, n)),
                                                                   smt.Eq(smt.Select(ops.arr_data(r), i), smt.Add(lo, i)))))
                return r
            if isinstance(x, (tuple, list)):
                return list(x)
            if isinstance(x, SV) and x.pt.kind in ("seq", "arr"):
                if want is not None and want.kind == "arr" and x.pt.kind == "seq":
                    return self.seq_to_arr(x, want, st)
                return x
            raise Unsupported(f"list() of {x!r}")
        if name == "dict" and len(args) == 1 and isinstance(args[0], (tuple, list)) and all(isinstance(p, tuple) and len(p) == 2 for p in args[0]):
            out = {}
            for k, v in args[0]:
                if not isinstance(k, (EnumVal, int, str)):
                    raise Unsupported("dict() from pairs with symbolic keys")
                out[k] = v
            return out
        if name == "tuple":
            (x,) = args
            if isinstance(x, (tuple, list)):
                return tuple(x)
            if isinstance(x, SV) and x.pt.kind == "seq":
                return x
            raise Unsupported(f"tuple() of {x!r}")
        if name == "defaultdict":
            if want is None or want.kind != "map" or want.name != "default":
                raise Unsupported("defaultdict needs a DefaultMap[...] typed target (locals=...)")
            if not (len(args) == 1 and isinstance(args[0], Builtin) and args[0].name == "set" and want.args[1].kind == "set"):
                raise Unsupported("only defaultdict(set) is modelled")
            return self.empty_map(want)
        if name in ("set", "frozenset"):
            if not args:
                if want is None or want.kind != "set":
                    return ("#emptyset",)
                return self.set_of([], want)
            (x,) = args
            if isinstance(x, (tuple, list)):
                if not x and (want is None or want.kind != "set"):
                    return ("#emptyset",)
                spt = want if (want is not None and want.kind == "set") else Set(ops.pt_of(x[0]))
                return self.set_of(list(x), spt)
            if isinstance(x, SV) and x.pt.kind == "set":
                return x
            if isinstance(x, SV) and x.pt.kind == "seq":
                ept = x.pt.args[0]
                es = self.tenv.sort(ept)
                r = self.fresh("setof", Set(ept), st)
                e = smt.Var(smt.fresh_name("e"), es)
                mem = ops.seq_mem(x.term, e)
                st.assume(smt.Forall([(e.args[0], es)], smt.Eq(smt.Select(r.term, e), mem), patterns=((smt.Select(r.term, e),), (mem,))))
                return r
            raise Unsupported(f"set() of {x!r}")
        if name == "int":
            (x,) = args
            return SV(ops.term(x, INT), INT)
        if name == "bool":
            (x,) = args
            return SV(ops.truthy(x), BOOL)
        if name in ("any", "all"):
            (x,) = args
            items = self.concrete_items(x, st)
            ts = [ops.truthy(i) for i in items]
            return SV(smt.Or(*ts) if name == "any" else smt.And(*ts), BOOL)
        if name == "sum":
            (x,) = args
            items = self.concrete_items(x, st)
            r = 0
            for it in items:
                r = self.binop(ast.Add(), r, it, st)
            return r
        if name == "print":
            return None
        if name == "cover":
            return SV(smt.TRUE, BOOL)
        raise Unsupported(f"builtin {name}")

    def seq_to_arr(self, x, apt, st):
        ept = apt.args[0]
        es = self.tenv.sort(ept)
        r = self.fresh("arr_of_seq", apt, st)
        i = smt.Var(smt.fresh_name("i"), "Int")
        ln = smt.SeqLen(x.term)
        st.assume(smt.Eq(self.ops.arr_len(r), ln))
        elem = SV(smt.SeqNth(x.term, i), x.pt.args[0])
        st.assume(
            smt.Forall(
                [(i.args[0], "Int")],
                smt.Implies(
                    smt.And(smt.Le(smt.Int(0), i), smt.Lt(i, ln)),
                    smt.Eq(smt.Select(self.ops.arr_data(r), i), self.ops.term(elem, ept)),
                ),
            )
        )
        return r

    # ------------------------------------------------------------------ methods
    def call_method(self, recv, name, args, kwargs, st, node=None, want=None):
        ops = self.ops
        if isinstance(recv, View):
            # table[k0]..[kn].m(args)  ==>  contract cell<n>_m(table, k0..kn, args): the proxies are pure views (they re-resolve
            # the address on every call), so the desugaring drops nothing but the proxy objects themselves
            mname = f"cell{len(recv.keys)}_{name}"
            c = self.find_method_contract(recv.obj.cls, mname)
            if c is None:
                raise Unsupported(f"no contract for {recv.obj.cls}.{mname}")
            return self.apply_contract(c, recv.obj, list(recv.keys) + list(args), kwargs, st, None)
        if isinstance(recv, ObjRef):
            c = self.find_method_contract(recv.cls, name, args)
            if c is None:
                raise Unsupported(f"no contract for {recv.cls}.{name}")
            return self.apply_contract(c, recv, args, kwargs, st, node)
        if isinstance(recv, StaticRecClass) and name == "_make":
            (x,) = args
            items = self.concrete_items(x, st)
            if len(items) != len(recv.fields):
                self.safety(st, smt.FALSE, "_make arity")
                raise Unsupported("_make arity mismatch")
            return StaticRec(zip(recv.fields, items))
        if isinstance(recv, RecordClass) and name == "_make":
            (x,) = args
            items = self.concrete_items(x, st)
            return self.make_record(recv, items, {})
        place = node.func.value if (node is not None and isinstance(node.func, ast.Attribute)) else None
        if isinstance(recv, str) and name == "join" and len(args) == 1 and isinstance(args[0], SV) and args[0].pt.kind == "seq" and args[0].pt.args[0] == STR:
            # sep.join(lines): strings are opaque, the result is an uninterpreted function of the separator and the list
            self.ctx.declare_fun("str_join", ["Str", smt.SeqSort("Str")], "Str")
            return SV(self.ctx.app("str_join", ops.term(recv), args[0].term), STR)
        if isinstance(recv, list):
            if name == "append":
                recv.append(args[0])
                return None
            if name == "extend":
                recv.extend(self.concrete_items(args[0], st))
                return None
        if isinstance(recv, dict):
            if name in ("keys", "values", "items"):
                return getattr(recv, name)()
        if name in ("union", "difference", "intersection") and ((isinstance(recv, tuple) and recv and recv[0] == "#emptyset") or (isinstance(recv, SV) and recv.pt.kind == "set")):
            # a.union(b, c, ...) / a.difference(b, c, ...): folded binary set operations (new set, operands untouched)
            others = [a for a in args if not (isinstance(a, tuple) and a and a[0] == "#emptyset")]
            cur = None if isinstance(recv, tuple) else recv
            opn = {"union": ast.BitOr(), "difference": ast.Sub(), "intersection": ast.BitAnd()}[name]
            for b in others:
                if not (isinstance(b, SV) and b.pt.kind == "set"):
                    raise Unsupported(f"set.{name} with a non-set operand {b!r}")
                if cur is None:
                    if name == "union":
                        cur = b
                    else:
                        cur = self.set_of([], b.pt)
                    continue
                cur = self.set_binop(opn, cur, b, st)
            if cur is None:
                return ("#emptyset",)
            if cur is recv:
                # a copy: same members
                return cur
            return cur
        if isinstance(recv, tuple) and recv and recv[0] == "#emptyset":
            raise Unsupported("untyped empty set: declare the local's type in the contract (locals=...)")
        if isinstance(recv, SV):
            k = recv.pt.kind
            if k == "int" and name == "bit_length":
                t = recv.term
                self.safety(st, smt.Ge(t, smt.Int(0)), "bit_length of a non-negative integer (only case modelled)")
                return SV(self.ctx.app("bl", t), INT)
            if k == "seq" and name == "append":
                xt_ = ops.term(self.narrow(args[0], recv.pt.args[0], st), recv.pt.args[0])
                new = SV(smt.SeqConcat(recv.term, smt.SeqUnit(xt_)), recv.pt)
                self.seq_membership_facts(st, recv, new, added=xt_)
                self.store_place(place, new, st, inplace=True)
                return None
            if k == "seq" and name in ("popleft", "remove"):
                # collections.deque / list as a sequence: popleft() removes and returns the first element; remove(x) removes the first
                # occurrence of x.  The new sequence is given element-wise (length and every position).
                ept = recv.pt.args[0]
                ln = smt.SeqLen(recv.term)
                if name == "popleft":
                    self.safety(st, smt.Gt(ln, smt.Int(0)), "popleft from a non-empty deque")
                    pos = smt.Int(0)
                else:
                    xt = ops.term(self.narrow(args[0], ept, st), ept)
                    pos = self.ctx.fresh_const("rmpos", "Int")
                    j = smt.Var(smt.fresh_name("j"), "Int")
                    self.safety(st, smt.Exists([(j.args[0], "Int")], smt.And(smt.Le(smt.Int(0), j), smt.Lt(j, ln), smt.Eq(smt.SeqNth(recv.term, j), xt))),
                                "remove(x): x is in the deque (ValueError otherwise)")
                    st.assume(smt.And(smt.Le(smt.Int(0), pos), smt.Lt(pos, ln), smt.Eq(smt.SeqNth(recv.term, pos), xt)))
                    st.assume(smt.Forall([(j.args[0], "Int")], smt.Implies(smt.And(smt.Le(smt.Int(0), j), smt.Lt(j, pos)), smt.Not(smt.Eq(smt.SeqNth(recv.term, j), xt)))))
                new = self.fresh("deq", recv.pt, st)
                i = smt.Var(smt.fresh_name("i"), "Int")
                st.assume(smt.Eq(smt.SeqLen(new.term), smt.Sub(ln, smt.Int(1))))
                st.assume(smt.Forall([(i.args[0], "Int")], smt.Implies(
                    smt.And(smt.Le(smt.Int(0), i), smt.Lt(i, smt.Sub(ln, smt.Int(1)))),
                    smt.Eq(smt.SeqNth(new.term, i), smt.Ite(smt.Lt(i, pos), smt.SeqNth(recv.term, i), smt.SeqNth(recv.term, smt.Add(i, smt.Int(1))))))))
                first = SV(smt.SeqNth(recv.term, smt.Int(0)), ept)
                self.seq_membership_facts(st, recv, new, removed=(first.term if name == "popleft" else xt))
                self.store_place(place, new, st, inplace=True)
                return first if name == "popleft" else None
            if k == "seq" and name == "extend":
                other = args[0]
                if isinstance(other, list):
                    other = self.list_to_sv(other, recv.pt)
                new = SV(smt.SeqConcat(recv.term, ops.term(other, recv.pt)), recv.pt)
                self.store_place(place, new, st, inplace=True)
                return None
            if k == "arr" and name == "append":
                ln = ops.arr_len(recv)
                new = ops.mk_arr(recv.pt, smt.Add(ln, smt.Int(1)), smt.Store(ops.arr_data(recv), ln, ops.term(args[0], recv.pt.args[0])))
                self.store_place(place, new, st, inplace=True)
                return None
            if k == "set" and name == "add":
                new = SV(smt.Store(recv.term, ops.term(self.narrow(args[0], recv.pt.args[0], st), recv.pt.args[0]), smt.TRUE), recv.pt)
                self.store_place(place, new, st, inplace=True)
                return None
            if k == "map" and name in ("keys", "values", "items"):
                return ("#map" + name, recv)
            if k == "map" and name == "get":
                kt = ops.term(args[0], recv.pt.args[0])
                default = args[1] if len(args) > 1 else None
                present = smt.Select(ops.map_dom(recv), kt)
                val = SV(smt.Select(ops.map_val(recv), kt), recv.pt.args[1])
                return ops.ite_val(present, val, default)
            if k == "ref" and name == "traverse" and "size" in self.E.specs:
                strategy = args[0] if args else kwargs.get("strategy", "levelorder")
                if strategy not in ("preorder", "postorder", "levelorder"):
                    raise Unsupported(f"traverse strategy {strategy!r}")
                return ("#traverse", recv, strategy)
            if k == "ref":
                c = self.find_method_contract(recv.pt.name, name)
                if c is not None:
                    return self.apply_contract(c, recv, args, kwargs, st, node)
        raise Unsupported(f"method {name} on {recv!r}")

    def seq_membership_facts(self, st, old, new, added=None, removed=None):
        """Membership-level consequences of `new = old ++ [added]` / `new = old without the first occurrence of removed` (lemmas of the
        sequence theory, stated because the back ends do not derive them from the element-wise description under quantifiers).  Only
        emitted when the contracts talk about membership in sequences of this element sort."""
        from .types import mangle

        es = self.tenv.sort(old.pt.args[0])
        if "mem_" + mangle(es) not in self.ctx.funcs:
            return
        ops = self.ops
        e = smt.Var(smt.fresh_name("e"), es)
        m_old, m_new = ops.seq_mem(old.term, e), ops.seq_mem(new.term, e)
        if added is not None:
            st.assume(smt.Forall([(e.args[0], es)], smt.Eq(m_new, smt.Or(m_old, smt.Eq(e, added))), patterns=((m_new,), (m_old,))))
            return
        st.assume(smt.Forall([(e.args[0], es)], smt.Implies(m_new, m_old), patterns=((m_new,),)))
        st.assume(smt.Forall([(e.args[0], es)], smt.Implies(smt.And(m_old, smt.Not(smt.Eq(e, removed))), m_new), patterns=((m_old,),)))
        i, j = smt.Var(smt.fresh_name("i"), "Int"), smt.Var(smt.fresh_name("j"), "Int")

        def distinct(t):
            return smt.Forall([(i.args[0], "Int"), (j.args[0], "Int")], smt.Implies(
                smt.And(smt.Le(smt.Int(0), i), smt.Lt(i, j), smt.Lt(j, smt.SeqLen(t))), smt.Not(smt.Eq(smt.SeqNth(t, i), smt.SeqNth(t, j)))))

        # a duplicate-free sequence stays duplicate-free and no longer contains the removed element
        st.assume(smt.Implies(distinct(old.term), smt.And(distinct(new.term), smt.Not(ops.seq_mem(new.term, removed)))))

    def find_method_contract(self, cls, name, args=None):
        cs = self.E.registry.by_method.get((cls, name))
        while not cs and cls in getattr(self.E, "parents", {}):
            cls = self.E.parents[cls]
            cs = self.E.registry.by_method.get((cls, name))
        if not cs:
            return None
        if len(cs) == 1 or args is None:
            return cs[0]
        for c in cs:  # overloads: first variant whose leading parameter types accept the arguments
            names = [n for n in c.params if n not in c.ghost and n != "self"]
            ok = True
            for n, a in zip(names, args):
                t = c.params[n]
                pt = self.tenv.parse(t) if isinstance(t, str) else t
                try:
                    apt = self.ops.pt_of(a)
                except Unsupported:
                    continue
                if isinstance(pt, PT) and pt.kind == "enum" and not (apt.kind == "enum" and apt.name == pt.name):
                    ok = False
                if isinstance(pt, PT) and pt.kind != "enum" and apt.kind == "enum":
                    ok = False
            if ok:
                return c
        return cs[0]

    def construct(self, oc, args, kwargs, st):
        dc = getattr(self.E, "dataclasses", {}).get(oc.name)
        if dc is not None:
            vals = {}
            for i, f in enumerate(dc):
                if i < len(args):
                    vals[f] = args[i]
                elif f in kwargs:
                    vals[f] = kwargs[f]
                else:
                    raise Unsupported(f"dataclass {oc.name}: missing field {f}")
            decl = self.tenv.classes[oc.name]
            fields = {}
            for f, v in vals.items():
                fpt = decl[f]
                if fpt.kind == "obj":
                    if not isinstance(v, ObjRef):
                        raise Unsupported(f"dataclass {oc.name}.{f}: expected an object")
                    fields[f] = v
                else:
                    fields[f] = self.ops.sv(v, fpt)
            return self.alloc(oc.name, st, oc.name.lower(), fields=fields)
        c = self.find_method_contract(oc.name, "__init__", args)
        if c is None:
            raise Unsupported(f"no contract for {oc.name}.__init__")
        ref = self.alloc(oc.name, st, oc.name.lower())
        self.apply_contract(c, ref, args, kwargs, st, None, constructing=True)
        return ref

    # ------------------------------------------------------------------ contract application
    def bind_call_args(self, c, recv, args, kwargs, st):
        env = {}
        pnames = list(c.params)
        ptys = {n: (self.tenv.parse(t) if isinstance(t, str) else t) for n, t in c.params.items() if n not in c.ghost}
        names = [n for n in pnames if n not in c.ghost]
        vararg = getattr(c, "vararg", None)
        i = 0
        if recv is not None and names and names[0] == "self":
            env["self"] = recv
            names = names[1:]
        pos = list(args)
        for n in names:
            if n == vararg and not any(isinstance(a, StarArg) for a in pos):
                # statically known arity: bind the parameter to a Python tuple (len and constant indices fold)
                spt = ptys[n]
                env[n] = tuple(self.ops.sv(a, spt.args[0]) for a in pos)
                pos = []
                continue
            if n == vararg:
                spt = ptys[n]
                parts = []
                for a in pos:
                    if isinstance(a, StarArg):
                        parts.append(self.iter_to_seq(a.value, spt, st).term)
                    else:
                        parts.append(smt.SeqUnit(self.ops.term(a, spt.args[0])))
                pos = []
                if len(parts) == 1:
                    env[n] = SV(parts[0], spt)
                    continue
                # the concatenation is named, and its elements are related to the parts' elements explicitly
                # (theorems of the sequence theory, stated so that quantified contracts over indices can use them)
                whole = self.fresh("starargs", spt, st)
                t = smt.SeqEmpty(self.tenv.sort(spt.args[0]))
                for ptm in parts:
                    t = smt.SeqConcat(t, ptm)
                st.assume(smt.Eq(whole.term, t))
                off = smt.Int(0)
                iv = smt.Var(smt.fresh_name("ci"), "Int")
                for ptm in parts:
                    ln = smt.SeqLen(ptm)
                    st.assume(smt.Ge(ln, smt.Int(0)))
                    a1 = smt.SeqNth(whole.term, smt.Add(off, iv))
                    a2 = smt.SeqNth(ptm, iv)
                    st.assume(smt.Forall([(iv.args[0], "Int")], smt.Implies(smt.And(smt.Le(smt.Int(0), iv), smt.Lt(iv, ln)), smt.Eq(a1, a2)), patterns=((a2,),)))
                    b1 = smt.SeqNth(whole.term, iv)
                    b2 = smt.SeqNth(ptm, smt.Sub(iv, off))
                    st.assume(smt.Forall([(iv.args[0], "Int")], smt.Implies(smt.And(smt.Le(off, iv), smt.Lt(iv, smt.Add(off, ln))), smt.Eq(b1, b2)), patterns=((b1,),)))
                    off = smt.Add(off, ln)
                st.assume(smt.Eq(smt.SeqLen(whole.term), off))
                env[n] = whole
                continue
            if pos:
                v = pos.pop(0)
                if isinstance(v, StarArg):
                    raise Unsupported("starred argument into a positional parameter")
            elif n in kwargs:
                v = kwargs[n]
            elif n in getattr(c, "defaults", {}):
                v = c.defaults[n]
            else:
                raise Unsupported(f"call of {c.target}: missing argument {n}")
            pt = ptys[n]
            if isinstance(pt, UFun) or isinstance(v, (Closure, UFun)):
                env[n] = v
            elif pt.kind == "obj":
                if not isinstance(v, ObjRef):
                    raise Unsupported(f"call of {c.target}: argument {n} is not an object ({v!r})")
                if v.cls != pt.name and getattr(self.E, "parents", {}).get(v.cls) != pt.name:
                    raise Unsupported(f"call of {c.target}: argument {n} has class {v.cls}, contract wants {pt.name}")
                env[n] = v
            elif pt.kind == "any":
                env[n] = v
            else:
                if isinstance(v, list):
                    v = self.list_to_sv(v, pt)
                if isinstance(v, tuple) and v and v[0] == "#emptyset":
                    v = self.set_of([], pt)
                env[n] = self.ops.sv(v, pt)
        if pos:
            raise Unsupported(f"call of {c.target}: too many arguments")
        return env

    def iter_to_seq(self, v, spt, st):
        """Sequence of the items produced by iterating v (used for *args)."""
        if isinstance(v, SV) and v.pt == spt:
            return v
        if isinstance(v, ObjRef):
            c = self.find_method_contract(v.cls, "__iter__")
            if c is None:
                raise Unsupported(f"no contract for {v.cls}.__iter__")
            r = self.apply_contract(c, v, [], {}, st, None)
            if isinstance(r, SV) and r.pt == spt:
                return r
        if isinstance(v, SV) and v.pt.kind == "set" and v.pt.args[0] == spt.args[0]:
            # *set: some duplicate-free enumeration of the members
            es = self.tenv.sort(spt.args[0])
            sq = self.fresh("setseq", spt, st)
            ix = smt.fresh_name("setidx")
            self.ctx.declare_fun(ix, [es], "Int")
            i = smt.Var(smt.fresh_name("i"), "Int")
            e = smt.Var(smt.fresh_name("e"), es)
            nth = smt.SeqNth(sq.term, i)
            ixe = self.ctx.app(ix, e)
            st.assume(smt.Forall([(i.args[0], "Int")], smt.Implies(smt.And(smt.Le(smt.Int(0), i), smt.Lt(i, smt.SeqLen(sq.term))), smt.Select(v.term, nth)), patterns=((nth,),)))
            st.assume(smt.Forall([(e.args[0], es)], smt.Implies(smt.Select(v.term, e), smt.And(smt.Le(smt.Int(0), ixe), smt.Lt(ixe, smt.SeqLen(sq.term)), smt.Eq(smt.SeqNth(sq.term, ixe), e))),
                                 patterns=((smt.Select(v.term, e),),)))
            return sq
        if isinstance(v, tuple) and v and v[0] == "#map":
            raise Unsupported("starred map() argument (contract the lambda's image as a ghost sequence)")
        raise Unsupported(f"starred argument {v!r}")

    def apply_contract(self, c, recv, args, kwargs, st, node=None, constructing=False):
        if c.trusted and self.c is not None and not self.spec_mode:
            self.E.used_assumed.setdefault(c.target, set()).add(self.c.target)  # evidence: which assumed contracts the verified code relies on
        env = self.bind_call_args(c, recv, args, kwargs, st)
        cst = State()
        cst.env = env
        cst.heap = st.heap
        cst.pc = st.pc
        cst.writes = st.writes
        cst.param_oids = st.param_oids
        for gname, gt in c.ghost.items():
            cst.env[gname] = self.fresh(gname, self.tenv.parse(gt), st)
        saved_old, saved_c = self.old_state, self.c
        short = c.target.split(":")[-1]
        hooks = getattr(saved_c, "before_call", {}).get(short) if (saved_c is not None and not self.spec_mode) else None
        if hooks:
            for pname, pval in env.items():
                st.env[f"arg_{pname}"] = pval
            for body in hooks:
                for g in body:
                    for nn in ast.walk(g):
                        nn.lineno = self.cur_line
                res = self.exec_block(body, st)
                if len(res) != 1:
                    raise Unsupported("ghost code must be straight-line")
                st = res[0][0]
            cst.heap, cst.pc, cst.writes = st.heap, st.pc, st.writes
        try:
            # preconditions are checked in the caller's vocabulary but resolved with the callee's globals
            self.c = _merge_globals(saved_c, c)
            self.old_state = None
            for i, r in enumerate(c.requires):
                goal = self.eval_clause(r, cst)
                self.c = saved_c
                self.oblige(st, goal, f"call/{short}/pre/{r.name or i}@L{self.cur_line}", "call-pre", text=r.text)
                self.c = _merge_globals(saved_c, c)
            pre = cst.fork()
            pre.writes = None
            # havoc the frame
            for m in c.modifies:
                self.havoc_place(m, cst, st, node, c)
            # result
            result = None
            if c.returns is not None:
                rpt = self.tenv.parse(c.returns) if isinstance(c.returns, str) else c.returns
                if rpt.kind == "opt" and rpt.args[0].kind == "obj":
                    result = OptRef(self.ctx.fresh_const(short + "_present", "Bool"), self.alloc(rpt.args[0].name, st, short + "_res"))
                elif rpt.kind == "obj":
                    result = self.alloc(rpt.name, st, short + "_res")
                else:
                    result = self.fresh(short + "_res", rpt, st)
            cst.env["result"] = result
            self.old_state = pre
            for e in c.ensures:
                if e.native_only:
                    continue
                t_post = self.eval_clause(e, cst)
                st.assume(t_post)
                # origin of the hypothesis (used by the prover's "focus" stage: quantified callee postconditions are the bulk of a
                # path condition and are what ghost cuts summarise)
                self.E.hyp_origin[str(t_post)] = "callee-post"
            if c.decreases and saved_c is not None and saved_c.target == c.target and not self.spec_mode:
                # recursive call: the measure decreases and is bounded below
                dn = parse_expr(c.decreases)
                saved_mode = self.spec_mode
                self.spec_mode = True
                new = self.ops.term(self.eval(dn, pre), INT)
                oldm = self.ops.term(self.eval(dn, self.entry_state), INT)
                self.spec_mode = saved_mode
                self.c = saved_c
                self.oblige(st, smt.And(smt.Le(smt.Int(0), new), smt.Lt(new, oldm)), f"decreases@L{self.cur_line}", "decreases", text=c.decreases)
            return result
        finally:
            self.old_state, self.c = saved_old, saved_c

    def havoc_place(self, m, cst, st, node, c):
        """m: 'self.field' | 'self.*' | 'param' | 'param.field' in the callee's vocabulary."""
        parts = m.split(".")
        base = cst.env.get(parts[0])
        if base is None:
            raise Unsupported(f"modifies {m}: unknown name")
        if len(parts) == 1:
            if isinstance(base, ObjRef):
                self.havoc_obj(base, st, m)
                return
            # by-reference container argument: write the new value back into the caller's place
            new = self.fresh(parts[0] + "'", base.pt, st)
            cst.env[parts[0]] = new
            idx = [n for n in c.params if n not in c.ghost and n != "self"].index(parts[0])
            if node is None or idx >= len(node.args):
                raise Unsupported(f"modifies {m}: cannot locate the caller's argument")
            self.store_place(node.args[idx], new, st, inplace=True)
            return
        if not isinstance(base, ObjRef):
            raise Unsupported(f"modifies {m}: base is not an object")
        if parts[1] == "*":
            self.havoc_obj(base, st, m)
        else:
            old = st.heap[base.oid][parts[1]]
            self.check_param_write(base, parts[1], st)
            st.set_field(base, parts[1], self.havoc_like(m, old, st))

    def havoc_obj(self, ref, st, base):
        for f in list(st.heap[ref.oid]):
            self.check_param_write(ref, f, st)
            st.set_field(ref, f, self.havoc_like(f"{base}.{f}", st.heap[ref.oid][f], st))

    def check_param_write(self, ref, field, st):
        """Writes to caller-owned objects are checked against `modifies` at the end (check_frame)."""
        return


class Contract_:
    """Wrapper so a contracted plain function can live in the globals table."""

    def __init__(self, c):
        self.c = c


def _merge_globals(caller_c, callee_c):
    if caller_c is None:
        return callee_c
    import copy

    m = copy.copy(caller_c)
    g = dict(caller_c.globals)
    g.update(callee_c.globals)
    m.globals = g
    return m
