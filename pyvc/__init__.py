"""pyvc — verification-condition generator for a subset of Python (see /verif/DESIGN.md)."""
