"""Load sidecar contract files into an Engine."""
import importlib.util
import hashlib
import os
import sys

VERIF = os.path.dirname(os.path.dirname(os.path.abspath(__file__)))


def load_contracts(E, names=None, directory=None):
    directory = directory or os.path.join(VERIF, "contracts")
    if VERIF not in sys.path:
        sys.path.insert(0, VERIF)
    files = sorted(f for f in os.listdir(directory) if f.endswith(".py") and not f.startswith("_"))
    order = getattr(E, "load_order", None)
    for fn in files:
        if names is not None and fn[:-3] not in names:
            continue
        path = os.path.join(directory, fn)
        spec = importlib.util.spec_from_file_location("vcontracts_" + fn[:-3], path)
        mod = importlib.util.module_from_spec(spec)
        spec.loader.exec_module(mod)
        before = set(E.registry.contracts)
        mod.setup(E)
        for t in set(E.registry.contracts) - before:
            E.registry.contracts[t].file = fn
        E.registry.files.append((fn, hashlib.sha256(open(path, "rb").read()).hexdigest()[:16]))
    return E
