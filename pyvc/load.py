"""Load sidecar contract files into an Engine (dependencies first, each file once)."""
import importlib.util
import hashlib
import os
import sys

VERIF = os.path.dirname(os.path.dirname(os.path.abspath(__file__)))


def load_contracts(E, names=None, directory=None):
    directory = directory or os.path.join(VERIF, "contracts")
    if VERIF not in sys.path:
        sys.path.insert(0, VERIF)
    if names is None:
        names = sorted(f[:-3] for f in os.listdir(directory) if f.endswith(".py") and not f.startswith("_"))
    loaded = getattr(E, "_loaded_files", None)
    if loaded is None:
        loaded = E._loaded_files = []

    def load(name):
        if name in loaded:
            return
        path = os.path.join(directory, name + ".py")
        spec = importlib.util.spec_from_file_location("vcontracts_" + name, path)
        mod = importlib.util.module_from_spec(spec)
        spec.loader.exec_module(mod)
        for dep in getattr(mod, "REQUIRES", []):
            load(dep)
        loaded.append(name)
        before = set(E.registry.contracts)
        mod.setup(E)
        for t in set(E.registry.contracts) - before:
            E.registry.contracts[t].file = name + ".py"
        E.registry.files.append((name + ".py", hashlib.sha256(open(path, "rb").read()).hexdigest()[:16]))

    for n in names:
        load(n)
    return E
