"""SMT-LIB 2 term layer of pyvc: terms, sorts, declarations, printing.

Terms are immutable trees.  Only the constructs both z3 (5.x) and cvc5 (1.0.x) parse are
emitted: Int/Bool, algebraic datatypes, (Array K V), (Seq T) with seq.* operators,
uninterpreted sorts and functions, quantifiers with optional :pattern.
"""
from __future__ import annotations
import re
from typing import Iterable, Optional, Sequence


class Term:
    __slots__ = ("op", "args", "sort", "binders", "patterns", "_str", "_hash")

    def __init__(self, op, args=(), sort="Bool", binders=None, patterns=None):
        self.op = op
        self.args = tuple(args)
        self.sort = sort
        self.binders = binders  # for forall/exists: tuple of (name, sort)
        self.patterns = patterns
        self._str = None
        self._hash = None

    # ----- printing
    def __str__(self):
        if self._str is None:
            self._str = self._render()
        return self._str

    __repr__ = __str__

    def _render(self):
        op = self.op
        if op in ("forall", "exists"):
            bs = " ".join(f"({n} {s})" for n, s in self.binders)
            body = str(self.args[0])
            if self.patterns:
                pats = " ".join(
                    ":pattern (" + " ".join(str(p) for p in pat) + ")" for pat in self.patterns
                )
                body = f"(! {body} {pats})"
            return f"({op} ({bs}) {body})"
        if op == "#int":
            n = self.args[0]
            return str(n) if n >= 0 else f"(- {-n})"
        if op == "#var" or op == "#const":
            return self.args[0]
        if op == "#as":  # qualified constant, e.g. (as seq.empty (Seq Int))
            return f"(as {self.args[0]} {self.sort})"
        if not self.args:
            return op
        return "(" + op + " " + " ".join(str(a) for a in self.args) + ")"

    def __eq__(self, other):
        return isinstance(other, Term) and str(self) == str(other) and self.sort == other.sort

    def __hash__(self):
        if self._hash is None:
            self._hash = hash(str(self))
        return self._hash

    def is_lit(self):
        return self.op in ("#int", "true", "false")

    def value(self):
        if self.op == "#int":
            return self.args[0]
        if self.op == "true":
            return True
        if self.op == "false":
            return False
        raise ValueError(self)


def _mk_int(n):
    return Term("#int", (int(n),), "Int")


TRUE = Term("true", (), "Bool")
FALSE = Term("false", (), "Bool")


def Int(n):
    return _mk_int(n)


def Bool(b):
    return TRUE if b else FALSE


def Var(name, sort):
    return Term("#var", (name,), sort)


def Const(name, sort):
    return Term("#const", (name,), sort)


def App(fname, args, sort):
    args = tuple(args)
    if not args:
        return Const(fname, sort)
    return Term(fname, args, sort)


def As(name, sort):
    return Term("#as", (name,), sort)


# ----- boolean connectives with light simplification


def And(*xs):
    out = []
    for x in _flat(xs):
        if x.op == "true":
            continue
        if x.op == "false":
            return FALSE
        if x.op == "and":
            out.extend(x.args)
        else:
            out.append(x)
    if not out:
        return TRUE
    if len(out) == 1:
        return out[0]
    return Term("and", out, "Bool")


def Or(*xs):
    out = []
    for x in _flat(xs):
        if x.op == "false":
            continue
        if x.op == "true":
            return TRUE
        if x.op == "or":
            out.extend(x.args)
        else:
            out.append(x)
    if not out:
        return FALSE
    if len(out) == 1:
        return out[0]
    return Term("or", out, "Bool")


def _flat(xs):
    for x in xs:
        if isinstance(x, (list, tuple)):
            yield from _flat(x)
        else:
            assert isinstance(x, Term), x
            assert x.sort == "Bool", (x, x.sort)
            yield x


def Not(x):
    assert x.sort == "Bool", x
    if x.op == "true":
        return FALSE
    if x.op == "false":
        return TRUE
    if x.op == "not":
        return x.args[0]
    return Term("not", (x,), "Bool")


def Implies(a, b):
    if a.op == "true":
        return b
    if a.op == "false":
        return TRUE
    if b.op == "true":
        return TRUE
    return Term("=>", (a, b), "Bool")


def Iff(a, b):
    return Eq(a, b)


def Ite(c, a, b):
    assert a.sort == b.sort, (a, a.sort, b, b.sort)
    if c.op == "true":
        return a
    if c.op == "false":
        return b
    if a == b:
        return a
    if a.sort == "Bool":
        if a.op == "true" and b.op == "false":
            return c
        if a.op == "false" and b.op == "true":
            return Not(c)
    return Term("ite", (c, a, b), a.sort)


def Eq(a, b):
    assert a.sort == b.sort, ("sort mismatch in =", a, a.sort, b, b.sort)
    if a.is_lit() and b.is_lit():
        return Bool(a.value() == b.value())
    if a == b:
        return TRUE
    return Term("=", (a, b), "Bool")


def Ne(a, b):
    return Not(Eq(a, b))


def Distinct(*xs):
    if len(xs) < 2:
        return TRUE
    return Term("distinct", xs, "Bool")


# ----- integer arithmetic


def _arith(op, pyop, a, b):
    assert a.sort == "Int" and b.sort == "Int", (op, a, a.sort, b, b.sort)
    if a.op == "#int" and b.op == "#int":
        return _mk_int(pyop(a.args[0], b.args[0]))
    return None


def _offset(t):
    """t as (base, constant offset): (x + 3) -> (x, 3); (x - 2) -> (x, -2)."""
    if t.op == "+" and len(t.args) == 2 and t.args[1].op == "#int":
        return t.args[0], t.args[1].args[0]
    if t.op == "+" and len(t.args) == 2 and t.args[0].op == "#int":
        return t.args[1], t.args[0].args[0]
    if t.op == "-" and len(t.args) == 2 and t.args[1].op == "#int":
        return t.args[0], -t.args[1].args[0]
    return t, 0


def _with_offset(base, off):
    if off == 0:
        return base
    if off > 0:
        return Term("+", (base, _mk_int(off)), "Int")
    return Term("-", (base, _mk_int(-off)), "Int")


def Add(a, b):
    r = _arith("+", lambda x, y: x + y, a, b)
    if r is not None:
        return r
    if b.op == "#int":
        base, off = _offset(a)
        return _with_offset(base, off + b.args[0])
    if a.op == "#int":
        base, off = _offset(b)
        return _with_offset(base, off + a.args[0])
    if a.op == "#int" and a.args[0] == 0:
        return b
    if b.op == "#int" and b.args[0] == 0:
        return a
    return Term("+", (a, b), "Int")


def Sub(a, b):
    r = _arith("-", lambda x, y: x - y, a, b)
    if r is not None:
        return r
    if b.op == "#int":
        base, off = _offset(a)
        return _with_offset(base, off - b.args[0])
    if b.op == "#int" and b.args[0] == 0:
        return a
    return Term("-", (a, b), "Int")


def Neg(a):
    if a.op == "#int":
        return _mk_int(-a.args[0])
    return Term("-", (a,), "Int")


def Mul(a, b):
    r = _arith("*", lambda x, y: x * y, a, b)
    if r is not None:
        return r
    for x, y in ((a, b), (b, a)):
        if x.op == "#int":
            if x.args[0] == 0:
                return _mk_int(0)
            if x.args[0] == 1:
                return y
    if a.op != "#int" and b.op != "#int":
        # product of two non-constants: printed through `nlmul`, which the preamble either defines as `*`
        # or leaves uninterpreted (sound abstraction used as one more back-end strategy)
        return Term("nlmul", (a, b), "Int")
    return Term("*", (a, b), "Int")


def Div(a, b):
    """SMT-LIB div: floor division for a positive divisor (Python // agrees there)."""
    if a.op == "#int" and b.op == "#int" and b.args[0] > 0:
        return _mk_int(a.args[0] // b.args[0])
    return Term("div", (a, b), "Int")


def Mod(a, b):
    if a.op == "#int" and b.op == "#int" and b.args[0] > 0:
        return _mk_int(a.args[0] % b.args[0])
    return Term("mod", (a, b), "Int")


def _cmp(op, pyop, a, b):
    assert a.sort == "Int" and b.sort == "Int", (op, a, a.sort, b, b.sort)
    if a.op == "#int" and b.op == "#int":
        return Bool(pyop(a.args[0], b.args[0]))
    return Term(op, (a, b), "Bool")


def Lt(a, b):
    return _cmp("<", lambda x, y: x < y, a, b)


def Le(a, b):
    return _cmp("<=", lambda x, y: x <= y, a, b)


def Gt(a, b):
    return _cmp(">", lambda x, y: x > y, a, b)


def Ge(a, b):
    return _cmp(">=", lambda x, y: x >= y, a, b)


# ----- arrays / sets-as-arrays


def ArraySort(k, v):
    return f"(Array {k} {v})"


def Select(arr, idx):
    m = re.match(r"^\(Array (.*)\)$", arr.sort)
    assert m, arr.sort
    k, v = split_sorts(m.group(1))
    assert idx.sort == k, ("select index sort", idx, idx.sort, k)
    if arr.op == "store":
        a0, i0, v0 = arr.args
        if i0 == idx:
            return v0
    if arr.op == "#constarr":
        return arr.args[0]
    return Term("select", (arr, idx), v)


def Store(arr, idx, val):
    return Term("store", (arr, idx, val), arr.sort)


class _ConstArr(Term):
    def _render(self):
        return f"((as const {self.sort}) {self.args[0]})"


def ConstArray(sort, val):
    return _ConstArr("#constarr", (val,), sort)


def split_sorts(s: str):
    """Split 'A (Array B C) D' into top-level sort strings."""
    out, depth, cur = [], 0, ""
    for ch in s:
        if ch == "(":
            depth += 1
        if ch == ")":
            depth -= 1
        if ch == " " and depth == 0:
            if cur:
                out.append(cur)
            cur = ""
        else:
            cur += ch
    if cur:
        out.append(cur)
    return out


# ----- sequences


def SeqSort(t):
    return f"(Seq {t})"


def seq_elem_sort(s):
    m = re.match(r"^\(Seq (.*)\)$", s)
    assert m, s
    return m.group(1)


def SeqEmpty(elem_sort):
    return As("seq.empty", SeqSort(elem_sort))


def SeqUnit(x):
    return Term("seq.unit", (x,), SeqSort(x.sort))


def SeqConcat(a, b):
    if a.op == "#as":
        return b
    if b.op == "#as":
        return a
    return Term("seq.++", (a, b), a.sort)


def SeqLen(a):
    if a.op == "#as":
        return Int(0)
    if a.op == "seq.unit":
        return Int(1)
    return Term("seq.len", (a,), "Int")


def SeqNth(a, i):
    return Term("seq.nth", (a, i), seq_elem_sort(a.sort))


def SeqExtract(a, off, ln):
    return Term("seq.extract", (a, off, ln), a.sort)


# ----- quantifiers

_fresh_counter = [0]


def fresh_name(base):
    _fresh_counter[0] += 1
    base = re.sub(r"[^A-Za-z0-9_]", "_", base)
    return f"{base}!{_fresh_counter[0]}"


def Forall(binders, body, patterns=None):
    binders = tuple(binders)
    if not binders or body.op in ("true", "false"):
        return body
    return Term("forall", (body,), "Bool", binders=binders, patterns=patterns)


def Exists(binders, body, patterns=None):
    binders = tuple(binders)
    if not binders or body.op in ("true", "false"):
        return body
    return Term("exists", (body,), "Bool", binders=binders, patterns=patterns)


# ----- traversal helpers


def subterms(t: Term, bound=frozenset()):
    """Yield (term, bound_vars) for every sub-term (pre-order)."""
    stack = [(t, bound)]
    while stack:
        x, b = stack.pop()
        yield x, b
        if x.binders:
            b = b | {n for n, _ in x.binders}
        for a in x.args:
            if isinstance(a, Term):
                stack.append((a, b))
        if x.patterns:
            for pat in x.patterns:
                for p in pat:
                    stack.append((p, b))


def free_consts(t: Term):
    out = {}
    for x, _ in subterms(t):
        if x.op == "#const":
            out[x.args[0]] = x.sort
    return out


def substitute(t: Term, mapping: dict):
    """Capture-naive substitution of #var/#const by name -> Term."""
    if not mapping:
        return t

    def go(x):
        if x.op in ("#var", "#const") and x.args[0] in mapping:
            r = mapping[x.args[0]]
            assert r.sort == x.sort, (x, x.sort, r, r.sort)
            return r
        if not x.args or x.op in ("#int", "#as", "#var", "#const"):
            return x
        if x.binders:
            inner = {k: v for k, v in mapping.items() if k not in {n for n, _ in x.binders}}
            body = substitute(x.args[0], inner)
            pats = None
            if x.patterns:
                pats = tuple(tuple(substitute(p, inner) for p in pat) for pat in x.patterns)
            return Term(x.op, (body,), x.sort, binders=x.binders, patterns=pats)
        new_args = tuple(go(a) if isinstance(a, Term) else a for a in x.args)
        if x.op == "#constarr":
            return ConstArray(x.sort, new_args[0])
        return rebuild(x, new_args)

    return go(t)


_REBUILD = {}


def rebuild(x: Term, args):
    """Re-apply the smart constructor so that simplification happens after substitution."""
    f = _REBUILD.get(x.op)
    if f is not None and all(isinstance(a, Term) for a in args):
        try:
            return f(*args)
        except AssertionError:
            raise
    return Term(x.op, args, x.sort, binders=x.binders, patterns=x.patterns)


_REBUILD.update(
    {
        "and": And,
        "or": Or,
        "not": Not,
        "=>": Implies,
        "ite": Ite,
        "=": Eq,
        "<": Lt,
        "<=": Le,
        ">": Gt,
        ">=": Ge,
        "select": Select,
    }
)


def _rb_add(*a):
    r = a[0]
    for x in a[1:]:
        r = Add(r, x)
    return r


def _rb_sub(*a):
    if len(a) == 1:
        return Neg(a[0])
    r = a[0]
    for x in a[1:]:
        r = Sub(r, x)
    return r


def _rb_mul(*a):
    r = a[0]
    for x in a[1:]:
        r = Mul(r, x)
    return r


_REBUILD.update({"+": _rb_add, "-": _rb_sub, "*": _rb_mul, "nlmul": _rb_mul, "div": Div, "mod": Mod})


# ----- sequence abstraction (sound weakening): every (Seq T) becomes an uninterpreted sort and every seq.* operator an
# uninterpreted function, with a few facts of the real theory kept.  A VC that is unsat under the abstraction is unsat in the
# sequence theory.  Used as a portfolio stage because quantified reasoning over seq.nth is what both solvers are worst at.
def _mangle(s):
    return re.sub(r"[^A-Za-z0-9]+", "_", s).strip("_")


def abs_sort(s: str) -> str:
    prev = None
    while prev != s:
        prev = s
        s = re.sub(r"\(Seq ((?:[^()]|\([^()]*\))*)\)", lambda m: "ASeq_" + _mangle(m.group(1)), s)
    return s


class SeqAbstraction:
    def __init__(self):
        self.funs = {}  # name -> (argsorts, ressort)
        self.sorts = set()
        self.elem = {}  # abstract sort -> element sort (abstracted)

    def sort(self, s):
        a = abs_sort(s)
        for m in re.findall(r"ASeq_[A-Za-z0-9_]+", a):
            self.sorts.add(m)
        return a

    def render(self, t: Term) -> str:
        op = t.op
        if op in ("forall", "exists"):
            bs = " ".join(f"({n} {self.sort(s)})" for n, s in t.binders)
            body = self.render(t.args[0])
            if t.patterns:
                pats = " ".join(":pattern (" + " ".join(self.render(p) for p in pat) + ")" for pat in t.patterns)
                body = f"(! {body} {pats})"
            return f"({op} ({bs}) {body})"
        if op == "#int":
            n = t.args[0]
            return str(n) if n >= 0 else f"(- {-n})"
        if op in ("#var", "#const"):
            return t.args[0]
        if op == "#as":
            if t.args[0] == "seq.empty":
                ss = self.sort(t.sort)
                name = "aempty_" + ss
                self.funs[name] = ([], ss)
                self.elem[ss] = self.sort(seq_elem_sort(t.sort))
                return name
            return f"(as {t.args[0]} {self.sort(t.sort)})"
        if op == "#constarr":
            return f"((as const {self.sort(t.sort)}) {self.render(t.args[0])})"
        if op.startswith("seq."):
            seqsort = t.sort if op == "seq.unit" else t.args[0].sort
            ss = self.sort(seqsort)
            self.elem[ss] = self.sort(seq_elem_sort(seqsort))
            name = "a" + op[4:].replace("++", "cat").replace(".", "_") + "_" + ss
            self.funs[name] = ([self.sort(a.sort) for a in t.args], self.sort(t.sort))
            return "(" + name + " " + " ".join(self.render(a) for a in t.args) + ")"
        if not t.args:
            return op
        return "(" + op + " " + " ".join(self.render(a) for a in t.args) + ")"

    def declarations(self):
        """function declarations and the facts of the real theory that are kept (to be emitted after the datatypes)"""
        out = []
        for ss in sorted(self.sorts):
            el = self.elem.get(ss)
            if el is None:
                continue
            self.funs.setdefault("alen_" + ss, ([ss], "Int"))
        for name, (args, res) in sorted(self.funs.items()):
            out.append(f"(declare-fun {name} ({' '.join(args)}) {res})")
        for ss in sorted(self.sorts):
            if "alen_" + ss in self.funs:
                out.append(f"(assert (forall ((s {ss})) (! (>= (alen_{ss} s) 0) :pattern ((alen_{ss} s)))))")
            if "aempty_" + ss in self.funs:
                out.append(f"(assert (= (alen_{ss} aempty_{ss}) 0))")
            if "aunit_" + ss in self.funs and "alen_" + ss in self.funs:
                el = self.elem[ss]
                out.append(f"(assert (forall ((x {el})) (! (= (alen_{ss} (aunit_{ss} x)) 1) :pattern ((aunit_{ss} x)))))")
                if "anth_" + ss in self.funs:
                    out.append(f"(assert (forall ((x {el})) (! (= (anth_{ss} (aunit_{ss} x) 0) x) :pattern ((aunit_{ss} x)))))")
            if "aextract_" + ss in self.funs:
                out.append(f"(assert (forall ((a {ss}) (o Int) (l Int)) (! (=> (and (<= 0 o) (<= 0 l) (<= (+ o l) (alen_{ss} a))) (= (alen_{ss} (aextract_{ss} a o l)) l)) :pattern ((aextract_{ss} a o l)))))")
                if "anth_" + ss in self.funs:
                    out.append(f"(assert (forall ((a {ss}) (o Int) (l Int) (i Int)) (! (=> (and (<= 0 o) (<= 0 i) (< i l) (<= (+ o l) (alen_{ss} a))) (= (anth_{ss} (aextract_{ss} a o l) i) (anth_{ss} a (+ o i)))) :pattern ((anth_{ss} (aextract_{ss} a o l) i)))))")
            if "acat_" + ss in self.funs:
                out.append(f"(assert (forall ((a {ss}) (b {ss})) (! (= (alen_{ss} (acat_{ss} a b)) (+ (alen_{ss} a) (alen_{ss} b))) :pattern ((acat_{ss} a b)))))")
                if "anth_" + ss in self.funs:
                    out.append(f"(assert (forall ((a {ss}) (b {ss}) (i Int)) (! (= (anth_{ss} (acat_{ss} a b) i) (ite (< i (alen_{ss} a)) (anth_{ss} a i) (anth_{ss} b (- i (alen_{ss} a))))) :pattern ((anth_{ss} (acat_{ss} a b) i)))))")
        return out
