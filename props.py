"""Property -> cone of contracted functions, lemmas, stand-ins (see DESIGN.md section 5)."""
from pyvc.driver import PropertySpec

SUB = "superrec2.utils.subsequences"

SPECS = {}


def _add(spec):
    SPECS[spec.pid] = spec


_add(PropertySpec(
    "C18", files=["subsequences"],
    targets=[f"{SUB}:subseq_complete", f"{SUB}:mask_from_subseq", f"{SUB}:subseq_from_mask", f"{SUB}:subseq_segment_dist",
             "lemma_pow2_mono", "lemma_submask_le", "lemma_bl_mono", "lemma_submask_bl", "lemma_runs_open", "lemma_lastmiss_cur", "lemma_runs_empty_child", "lemma_lastmiss_empty_child", "lemma_runs_nonneg"],
    level="proof",
    technique="contract-based deductive verification: sidecar contracts + loop invariants on the real AST, VCs discharged by z3/cvc5",
    assumptions=["bit operations on non-negative integers: x & 1 = x mod 2, x >> 1 = x div 2, 1 << k = 2**k, a | 2**k = a + 2**k when bit k of a is clear (each use generates the side obligation)"],
    not_decided=[],
))

DP = "superrec2.utils.dynamic_programming"
_add(PropertySpec(
    "C16", files=["subsequences", "dynamic_programming"],
    targets=[f"{DP}:Entry.__init__@policies", f"{DP}:Entry.__init__@values", f"{DP}:Entry.value", f"{DP}:Entry.infos",
             f"{DP}:Entry.is_infinite", f"{DP}:Entry.update", f"{DP}:Entry.combine", f"{DP}:Entry.__iter__",
             f"{DP}:EntryProxy.value", f"{DP}:EntryProxy.infos", f"{DP}:EntryProxy.is_infinite"],
    level="proof", standins=["dynamic_programming:Table-proxies"],
    technique="contract-based deductive verification: sidecar contracts + loop invariants on the real AST, VCs discharged by z3/cvc5",
    not_decided=["Table.__getitem__/__setitem__/keys, TableProxy, EntryProxy._get_real, EntryProxy.update (lazy cell creation), EntryProxy.combine/__iter__/__len__/info, "
                 "DictDimension / ListDimension storage: NOT discharged (heterogeneous nested dict/list storage), bounded stand-in `Table-proxies` only"],
))

RMQ = "superrec2.utils.range_min_query"
TR = "superrec2.utils.trees"
_add(PropertySpec(
    "C17", files=["subsequences", "range_min_query", "trees"],
    targets=[f"{RMQ}:_ilog2", f"{RMQ}:RangeMinQuery.__init__", f"{RMQ}:RangeMinQuery.__call__",
             "lemma_rmin_split", "lemma_rmin_overlap", "lemma_pow2_mono", "lemma_bl_mono",
             f"{TR}:LowestCommonAncestor.is_ancestor_of", f"{TR}:LowestCommonAncestor.is_strict_ancestor_of",
             f"{TR}:LowestCommonAncestor.is_comparable", f"{TR}:LowestCommonAncestor.distance",
             f"{TR}:LowestCommonAncestor.__call__", f"{TR}:LowestCommonAncestor.level"],
    level="proof", standins=["trees:axioms-hold-on-concrete-forests"],
    technique="contract-based deductive verification (sparse table and derived ancestry queries proved; Euler-tour core assumed + bounded validation)",
    not_decided=["Euler tour + range minimum => lowest common ancestor / depth (LowestCommonAncestor.__init__, __call__, level, _euler_tour): assumed contracts, validated only by the bounded stand-in"],
))

DSM = "superrec2.utils.disjoint_set"
_add(PropertySpec(
    "C20", files=["subsequences", "disjoint_set"],
    targets=[f"{DSM}:DisjointSet.__init__", f"{DSM}:DisjointSet.find", f"{DSM}:DisjointSet.unite", f"{DSM}:DisjointSet.__len__", f"{DSM}:DisjointSet.to_list"],
    level="proof", standins=["trees:triples-and-supertrees", "disjoint_set:partition-and-coarsenings"],
    technique="contract-based deductive verification of the union-find core and of to_list (ghost representative map); triples / supertrees / binary(): bounded stand-in",
    not_decided=["tree_to_triples, tree_from_triples, all_trees_from_triples, supertree, DisjointSet.binary / group count = number of classes: bounded stand-in only (ete3-bound code, set.pop order, cardinalities, deepcopy recursion)"],
))

TS = "superrec2.utils.toposort"
_add(PropertySpec(
    "C19", files=["toposort"], targets=[f"{TS}:toposort", "lemma_stuck_blocks_every_order"], level="exploration",
    standins=["toposort:all-orderings-vs-permutation-filter", "toposort:counting-axioms"],
    standin_for={f"{TS}:toposort": "toposort:all-orderings-vs-permutation-filter"},
    technique="contract-based deductive verification of the single-ordering routine (Kahn's algorithm: loop invariants over a ghost counting function, "
              "impossibility lemma by induction), VCs discharged by z3/cvc5; bounded stand-in (permutation filtering) for the all-orderings routine",
    assumptions=["ghost counting function rem(graph, D, v) = |{u in graph, u not in D : v in graph[u]}|: four first-order facts ASSUMED (non-negative; zero iff every predecessor is in D; "
                 "one more vertex in D lowers it by one exactly for its successors) - cardinalities are not definable in the SMT theories used; evaluated on all small digraphs by the stand-in `toposort:counting-axioms`",
                 "len(dict) is an uninterpreted function of the key set; three pigeonhole lemmas ASSUMED (a duplicate-free key sequence is not longer than the dict; one of that length contains every key, and conversely)",
                 "collections.deque modelled as a sequence: deque(dict) = the keys once each; popleft / append / remove(first occurrence) stated element-wise, with their membership-level consequences",
                 "successors are vertices (keys of the dict) - precondition; otherwise toposort raises KeyError"],
    not_decided=["toposort_all / _toposort_all_bt (each ordering exactly once): NOT discharged - the backtracking routine shares and restores the in-degree map across recursive calls and returns lists it "
                 "later mutates; the 'exactly once' clause is a statement about the multiset of all permutations; bounded stand-in only",
                 "find_cycle: not part of the property"],
))

MRC = "superrec2.model.reconciliation"
_add(PropertySpec(
    "C06", files=["model_reconciliation"],
    targets=[f"{MRC}:ReconciliationOutput.node_event", f"{MRC}:ReconciliationOutput._cost_rec", f"{MRC}:ReconciliationOutput.cost",
             f"{MRC}:SuperReconciliationOutput._ordered_labeling_cost", f"{MRC}:SuperReconciliationOutput._unordered_labeling_cost",
             f"{MRC}:SuperReconciliationOutput.reconciliation_cost", f"{MRC}:SuperReconciliationOutput.labeling_cost",
             f"{MRC}:SuperReconciliationOutput.cost",
             f"{SUB}:subseq_segment_dist", f"{SUB}:mask_from_subseq", f"{SUB}:subseq_complete",
             f"{TR}:LowestCommonAncestor.is_ancestor_of", f"{TR}:LowestCommonAncestor.is_strict_ancestor_of",
             f"{TR}:LowestCommonAncestor.is_comparable", f"{TR}:LowestCommonAncestor.distance"],
    level="proof",
    technique="contract-based deductive verification: evaluator methods proved from the real AST against the event-model spec (tree vocabulary), callee contracts from C17/C18",
    not_decided=["the command-line tool prints this value (process level, C12 territory)",
                 "sum over the pre-order enumeration = sum over internal nodes (enumeration covers each node once: assumed ete3 traverse contract)"],
))

CR = "superrec2.compute.reconciliation"
_add(PropertySpec(
    "C07", files=["compute_reconciliation"],
    targets=[f"{CR}:reconcile_lca", "lemma_lcamap_root", "lemma_lcamap_common", "lemma_lcamap_deepest",
             f"{TR}:LowestCommonAncestor.is_ancestor_of"],
    level="proof", standins=["reconcile_lca:optimal-and-unique-vs-brute-force"],
    bounded_targets=[f"{TR}:LowestCommonAncestor.__call__"],
    technique="contract-based deductive verification of clauses 1-2 (LCA mapping, validity); optimality/uniqueness: bounded stand-in only",
    not_decided=["minimum cost among all reconciliations for any dup/loss >= 0, unique when loss > 0: a theorem about the duplication-loss model, "
                 "not expressible as a contract on reconcile_lca; bounded comparison with brute force only"],
))

CE = "superrec2.compute.exhaustive"
_add(PropertySpec(
    "C01", files=["compute_super", "thl", "exhaustive"],
    targets=[f"{CR}:_compute_thl_try_speciation", f"{CR}:_compute_thl_try_duplication_transfer", f"{CR}:_compute_thl_table", "lemma_thl_lower_bound", f"{DP}:Table.entry",
             f"{CE}:reconcile_exhaustive",
             f"{DP}:Entry.update", f"{DP}:Entry.combine", f"{DP}:Entry.__iter__",
             f"{MRC}:ReconciliationOutput.node_event", f"{MRC}:ReconciliationOutput._cost_rec", f"{MRC}:ReconciliationOutput.cost",
             f"{TR}:LowestCommonAncestor.is_ancestor_of", f"{TR}:LowestCommonAncestor.distance"],
    level="proof", standins=["reconciliation:thl-exh-vs-brute-force", "reconciliation:F-COHERENCE-cost-witness", "thl-step-functions:recurrence-contract-at-runtime", "dynamic_programming:Table-proxies"],
    standin_for={f"{CR}:_compute_thl_try_speciation": "thl-step-functions:recurrence-contract-at-runtime",
                 f"{CR}:_compute_thl_try_duplication_transfer": "thl-step-functions:recurrence-contract-at-runtime",
                 f"{CE}:reconcile_exhaustive": ("reconciliation:thl-exh-vs-brute-force", "exh/")},
    technique="contract-based deductive verification of the two THL step functions (Bellman recurrence of the documented event model, value and ALL / ANY tag clauses, frame) "
              "from the real AST, of the entry operations they use and of the cost evaluator the results are ranked by; table fill / decode / re-ranking / exhaustive enumerator: "
              "bounded stand-in against an independent brute-force enumeration and recount",
    not_decided=["_decode_thl_table (the value is attained by a decoded reconciliation, coherent region), reconcile_thl (re-ranking over root species) and generate_all (WHICH reconciliations are enumerated) are NOT discharged: bounded stand-in only; "
                 "reconcile_exhaustive is proved relative to the assumed enumerator (it keeps exactly the cheapest enumerated outputs)",
                 "Table / TableProxy / EntryProxy: ASSUMED contracts over an abstract cell map (validated by the bounded Table-proxies stand-in)"],
))
_add(PropertySpec(
    "C05", files=["compute_super", "thl", "exhaustive"],
    targets=[f"{DP}:Entry.update", f"{DP}:Entry.combine", f"{DP}:Entry.__iter__", f"{DP}:Entry.infos",
             f"{CR}:_compute_thl_try_speciation", f"{CR}:_compute_thl_try_duplication_transfer", f"{DP}:Table.entry", f"{CE}:reconcile_exhaustive"],
    level="proof", standin_for={f"{CR}:_compute_thl_try_speciation": "thl-step-functions:recurrence-contract-at-runtime",
                                f"{CR}:_compute_thl_try_duplication_transfer": "thl-step-functions:recurrence-contract-at-runtime",
                                f"{CE}:reconcile_exhaustive": ("reconciliation:thl-exh-vs-brute-force", "exh/")},
    standins=["reconciliation:thl-exh-vs-brute-force", "reconciliation:F-COHERENCE-witnesses", "labelled-solvers:all-any-vs-optimal-set",
                            "thl-step-functions:recurrence-contract-at-runtime", "spfs-entry:recurrence-contract-at-runtime", "uspfs-entry:recurrence-contract-at-runtime"],
    technique="contract-based deductive verification of the tag clauses of Entry.update / combine / __iter__ (ALL keeps exactly the optimal tags, ANY exactly one); "
              "solver-level clauses (decode completeness, result sets): bounded stand-in against the brute-force optimal set",
    not_decided=["every optimal solution is returned / exactly one under ANY at the level of the solvers (decode completeness, re-ranking): bounded stand-in only",
                 "ordered and unordered solvers: same, bounded stand-in against the complete optimal set (unordered: canonical labellings, as the property states)"],
))

_add(PropertySpec(
    "C02", files=["compute_super", "ordered"],
    targets=["superrec2.compute.super_reconciliation:_make_prec_graph", f"{SUB}:subseq_complete", f"{SUB}:mask_from_subseq", f"{SUB}:subseq_from_mask", f"{SUB}:subseq_segment_dist",
             f"{MRC}:SuperReconciliationOutput._ordered_labeling_cost", f"{MRC}:SuperReconciliationOutput.cost"],
    level="exploration", standins=["ordered-solvers:optimum-vs-brute-force", "ordered-solvers:F-COHERENCE-witness", "spfs-entry:recurrence-contract-at-runtime", "gain-sets-required-sets-precedence-graph:contracts-at-runtime"],
    technique="bounded stand-in (both ordered solvers against an independent optimum over every species mapping, root order and labelling) plus "
              "contract-based deductive verification of _make_prec_graph (the family precedence graph) and of the callees the solver's correctness rests on "
              "(mask / segment-distance functions, ordered labelling cost); the SPFS table contracts are not discharged",
    not_decided=["Bellman contract of _compute_spfs_entry, _compute_spfs_table, _decode_spfs_table, _spfs and the two wrappers: NOT discharged, bounded stand-in only",
                 "root orders come from toposort_all (C19: bounded only)"],
))
_add(PropertySpec(
    "C03", files=["compute_super", "unordered"],
    targets=[f"superrec2.compute.unordered_super_reconciliation:_compute_lca_sets", "superrec2.compute.unordered_super_reconciliation:_compute_gain_sets", f"{MRC}:SuperReconciliationOutput._unordered_labeling_cost", f"{MRC}:SuperReconciliationOutput.cost",
             f"{MRC}:ReconciliationOutput.node_event", f"{MRC}:ReconciliationOutput._cost_rec"],
    level="exploration", standins=["unordered-solvers:optimum-vs-brute-force", "unordered-solvers:F-COHERENCE-witness", "uspfs-entry:recurrence-contract-at-runtime", "gain-sets-required-sets-precedence-graph:contracts-at-runtime"],
    technique="bounded stand-in (both unordered solvers against an independent optimum over every species mapping and EVERY admissible labelling, not only the canonical ones) plus "
              "contract-based deductive verification of _compute_gain_sets and _compute_lca_sets (where each family is gained, required content of every node) and of the evaluator "
              "(unordered labelling cost, event model); the USPFS table contracts are not discharged",
    not_decided=["recurrence contract of _compute_uspfs_entry, _compute_uspfs_table, _decode_uspfs_table, _uspfs and the wrappers: NOT discharged, bounded stand-in only",
                 "'the two canonical labellings per node lose nothing' is a theorem of the model: validated on the bounded scope only (oracle compares canonical vs all labellings)"],
))
_add(PropertySpec(
    "C04", files=["compute_super", "unordered"],
    targets=[f"superrec2.compute.unordered_super_reconciliation:_compute_lca_sets", "superrec2.compute.unordered_super_reconciliation:_compute_gain_sets", f"{MRC}:ReconciliationOutput.node_event", f"{MRC}:ReconciliationOutput._cost_rec", f"{MRC}:ReconciliationOutput.cost",
             f"{SUB}:subseq_segment_dist", f"{SUB}:subseq_from_mask", f"{SUB}:mask_from_subseq"],
    level="exploration", standins=["labelled-solvers:validity-of-returned-solutions", "reconciliation:thl-exh-vs-brute-force"],
    technique="bounded stand-in (validity clauses re-checked on every solution returned by the solvers, all cost vectors incl. segmental-loss cost 0) plus "
              "contract-based deductive verification of the functions that decide validity (node_event = documented event model incl. INVALID, segment distance = -1 iff not contained, "
              "mask <-> subsequence); the decode contracts are not discharged",
    not_decided=["representation invariants of the three tables and the decode contracts (_decode_thl_table, _decode_spfs_table, _decode_uspfs_table): NOT discharged, bounded stand-in only",
                 "multifurcating inputs: see C08"],
))

_add(PropertySpec(
    "C08", files=["compute_super"],
    targets=[f"{DP}:Entry.update"],
    level="exploration", standins=["binarize:each-binary-refinement-exactly-once", "ReconciliationInput.binarize:refined-inputs", "extended-solvers:optimum-over-all-refinements"],
    technique="bounded stand-in (refinement enumerator exhaustive over tree shapes <= 5/6 leaves against an independent generator; refined inputs; extended solvers on multifurcating inputs against the optimum over all refinements); "
              "of the cone only Entry.update (the result entry that collects the candidates of every refinement) is proved",
    not_decided=["binarize / arrange_leaves / graft, ReconciliationInput.binarize, label_internal (ete3 copy / Newick re-parsing) and the outer loops of _spfs / _uspfs: NOT discharged, bounded stand-in only"],
))

_add(PropertySpec(
    "C13", files=["render"],
    targets=[f"{MRC}:ReconciliationOutput.node_event"],
    level="exploration", standins=["diagram:events-losses-transfers-vs-event-model"],
    technique="bounded stand-in (layout + TikZ of valid reconciliations against the event model recomputed with parent chains); of the cone only node_event "
              "(the classification the layout reads the kind of every event node from) is proved",
    not_decided=["_add_losses, _compute_branches, measure_nodes, _tikz_draw_branches: NOT discharged (string-keyed dictionary state, float geometry): bounded stand-in only",
                 "coordinates beyond 'marker on the trunk edge of the right species / arrow ends at the transferred child's anchor' are not examined (C14 is not applicable)"],
))
_add(PropertySpec(
    "C15", files=["render", "text"],
    targets=["superrec2.utils.text:balanced_wrap", "superrec2.model.synteny:format_synteny"],
    level="exploration", standins=["tikz-text:well-formed-and-labels-faithful"],
    technique="bounded stand-in (generated TikZ text and labels checked against the clauses of the statement; balanced_wrap exhaustively on small word lists) "
              "plus contract-based deductive verification of balanced_wrap against an assumed contract of textwrap.wrap",
    not_decided=["tex.escape, get_color / render colour interning, colour propagation, brace balance of the templates: NOT discharged, bounded stand-in only",
                 "textwrap.wrap(break_long_words=False) keeps the words, respects the width unless a single word is longer and fills greedily: ASSUMED (library), exercised by the stand-in"],
))
