"""usage: dev_try.py files target-substr obligation-regex  -> solves each matching obligation in several modes, printing times"""
import sys, os, re, time, subprocess
sys.path.insert(0, "/verif")
from pyvc.symex import Engine
from pyvc.load import load_contracts
from pyvc import prove, solver
E = Engine(os.environ.get("PYVC_SRC", "/repo/src"))
load_contracts(E, sys.argv[1].split(","))
for t in E.registry.contracts:
    if sys.argv[2] in t:
        r = prove.generate(E, t)
        if r.unbound: print("UNBOUND", r.unbound)
        for o in r.obligations:
            if re.search(sys.argv[3], o.name):
                for mode, kw in (("ground-nl", dict(defs="ground", fuel=2, nl="abstract")), ("light-nl", dict(axioms="light", nl="abstract")), ("ground-light-nl", dict(defs="ground", fuel=2, nl="abstract", axioms="light")), ("ground", dict(defs="ground", fuel=3)), ("ground-light", dict(defs="ground", fuel=3, axioms="light")), ("ground-focus", dict(defs="ground", fuel=3, axioms="light", focus=True)), ("ground-focus-aseq", dict(defs="ground", fuel=3, axioms="light", focus=True, seq="abstract")), ("light", dict(axioms="light")), ("none", dict(axioms=False)), ("full", {}), ("light-aseq", dict(axioms="light", seq="abstract")), ("focus", dict(axioms="light", focus=True)), ("focus-aseq", dict(axioms="light", focus=True, seq="abstract"))):
                    txt = prove.vc_text(E, o, **kw)
                    open(f"/tmp/try_{mode}.smt2", "w").write(txt)
                    for sv, fn in (("z3", solver.run_z3), ("cvc5", solver.run_cvc5)):
                        st, out, dt = fn(f"/tmp/try_{mode}.smt2", int(os.environ.get("T", "30")))
                        print(o.name.split("/",1)[1], mode, sv, st, round(dt, 1), flush=True)
