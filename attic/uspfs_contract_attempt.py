"""Contract for _compute_uspfs_entry of superrec2.compute.unordered_super_reconciliation (C03, C05): the SuperDTL recurrence.

Postcondition (from the documented model, per parent kind pk in {LCA, INHERIT}): after the call the cell (root_object, root_species, pk)
holds the minimum of its old value and of every joint placement of the two children - species x and kind kx for the left child,
y and ky for the right child - in one of six families (two speciation orientations, duplication with the left / the right child
charged, transfer of the right / the left child), priced as

      event cost + cell(child, x, kx) + full losses on the skipped species edges + segmental loss on a CHARGED edge

where a charged edge costs one segmental loss when the child is of kind LCA and the parent's required content is not contained in
the child's (parent kind LCA) or always (parent kind INHERIT), an INHERIT child never pays, and an INHERIT child under an LCA parent
whose content it already contains is not a labelling (infinite).  ALL retains exactly the optimal placements, ANY one of them.
"""
from pyvc.contracts import Contract, LoopSpec
from pyvc.values import UFun, StaticRecClass
from pyvc.types import PT, Ref

M = "superrec2.compute.unordered_super_reconciliation"
DP = "superrec2.utils.dynamic_programming"
REQUIRES = ["compute_reconciliation", "unordered"]

ROLES = ["left", "right", "conserved", "segment", "separate"]
KINDS = {"lca": "SyntenyAssignment.LCA", "inh": "SyntenyAssignment.INHERIT"}


def setup(E):
    add = E.registry.add
    G = {"inf": E.globals["inf"]}
    E.declare_enum("SyntenyAssignment", ["LCA", "INHERIT"])
    KIND = PT("enum", name="SyntenyAssignment")
    E.view_classes = set(getattr(E, "view_classes", ())) | {"Table3"}
    E.declare_ufun("oa", ["Node", "SyntenyAssignment"], "Tag")
    E.declare_ufun("oa_sp", ["Tag"], "Node")
    E.declare_ufun("oa_kind", ["Tag"], "SyntenyAssignment")
    E.declare_ufun("ca", ["Tag", "Tag"], "Tag")
    E.declare_ufun("ca_left", ["Tag"], "Tag")
    E.declare_ufun("ca_right", ["Tag"], "Tag")
    note = "ObjectAssignment / ChildrenAssignment NamedTuples as info tags: injections into the tag sort; non-empty NamedTuples are truthy"
    E.axiom("tag/object-assignment-injection", "forall(lambda n, k: oa_sp(oa(n, k)) == n and oa_kind(oa(n, k)) == k and tag_truthy(oa(n, k)), Node, SyntenyAssignment)", note, keys=["oa", "oa_sp", "oa_kind"])
    E.axiom("tag/children-assignment-injection", "forall(lambda a, b: ca_left(ca(a, b)) == a and ca_right(ca(a, b)) == b and tag_truthy(ca(a, b)), Tag, Tag)", note, keys=["ca", "ca_left", "ca_right"])
    E.globals["ObjectAssignment"] = UFun("oa", [Ref("Node"), KIND], Ref("Tag"))
    E.globals["ChildrenAssignment"] = UFun("ca", [Ref("Tag"), Ref("Tag")], Ref("Tag"))
    E.globals["MappingChoices"] = StaticRecClass("MappingChoices", ROLES)

    # ---- abstract table of rank 3 (object, species, kind): same assumed proxy semantics as the rank-2 table of contracts/thl.py
    KEY = "Tup[Node, Node, SyntenyAssignment]"
    E.declare_class("Table3", {"merge_policy": "MergePolicy", "retention_policy": "RetentionPolicy",
                               "g_val": f"Map[{KEY}, Ext]", "g_tags": f"Map[{KEY}, Set[Tag]]"})
    E.spec("cell3v", f"gv: Map[{KEY}, Ext], u: Node, s: Node, k: SyntenyAssignment", "Ext", "gv[(u, s, k)] if (u, s, k) in gv else inf")
    E.spec("cell3t", f"gv: Map[{KEY}, Ext], gt: Map[{KEY}, Set[Tag]], u: Node, s: Node, k: SyntenyAssignment, t: Tag", "Bool",
           "((u, s, k) in gv) and is_fin(gv[(u, s, k)]) and (t in gt[(u, s, k)])")
    V1, V0 = "cell3v(self.g_val, k0, k1, k2)", "cell3v(old(self.g_val), k0, k1, k2)"
    T1 = lambda t="t": f"cell3t(self.g_val, self.g_tags, k0, k1, k2, {t})"
    T0 = "cell3t(old(self.g_val), old(self.g_tags), k0, k1, k2, t)"
    HIT = f"exists(lambda i: 0 <= i and i < len(candidates) and candidates[i].value == {V1} and is_fin(candidates[i].value) and candidates[i].info == t and tag_truthy(t), Int)"
    RHS = f"(({T0} and {V0} == {V1}) or {HIT})"
    NOTE = "rank-3 Table / proxies seen as a partial map from key triples to (value, tags): ASSUMED, validated by the bounded Table-proxies stand-in"
    P3 = {"self": "Table3", "k0": "Node", "k1": "Node", "k2": "SyntenyAssignment"}
    add(Contract(f"{DP}:Table3.cell3_value", kind="assumed", params=P3, returns="Ext", ensures=[f"result == {V1}"], globals=G, note=NOTE, props=["C16"]))
    add(Contract(f"{DP}:Table3.entry", kind="assumed", params={"self": "Table3"}, returns="Entry",
                 ensures=["result._value == worst(self.merge_policy)", "forall(lambda t: not (t in result._infos), Tag)",
                          "result._merge_policy == self.merge_policy", "result._retention_policy == self.retention_policy"],
                 globals=G, note="the method Table.entry, proved under that name (contracts/thl.py); restated for the rank-3 table class", props=["C16"]))
    add(Contract(f"{DP}:Table3.cell3_update", kind="assumed", params=dict(P3, candidates="Seq[Candidate]"), vararg="candidates",
                 requires=["self.merge_policy == MergePolicy.MIN"],
                 ensures=[
                     ("value-not-worse-than-old", f"not ({V0} < {V1})"),
                     ("value-not-worse-than-any-candidate", f"forall(lambda i: implies(0 <= i and i < len(candidates), not (candidates[i].value < {V1})), Int)"),
                     ("value-is-attained", f"{V1} == {V0} or exists(lambda i: 0 <= i and i < len(candidates) and candidates[i].value == {V1}, Int)"),
                     ("tags-all", f"implies(self.retention_policy == RetentionPolicy.ALL, forall(lambda t: {T1()} == {RHS}, Tag))"),
                     ("tags-any-sound", f"implies(self.retention_policy == RetentionPolicy.ANY, forall(lambda t: implies({T1()}, {RHS}), Tag))"),
                     ("tags-any-nonempty", f"implies(self.retention_policy == RetentionPolicy.ANY and exists(lambda t: {RHS}, Tag), exists(lambda t: {T1()}, Tag))"),
                     ("tags-any-single", f"implies(self.retention_policy == RetentionPolicy.ANY, forall(lambda t, t2: implies({T1()} and {T1('t2')}, t == t2), Tag, Tag))"),
                     ("frame", """forall(lambda a, b, c: implies(a != k0 or b != k1 or c != k2,
                           cell3v(self.g_val, a, b, c) == cell3v(old(self.g_val), a, b, c)
                           and forall(lambda t: cell3t(self.g_val, self.g_tags, a, b, c, t) == cell3t(old(self.g_val), old(self.g_tags), a, b, c, t), Tag)), Node, Node, SyntenyAssignment)"""),
                 ], modifies=["self.g_val", "self.g_tags"], globals=G, note=NOTE, props=["C16"]))

    # ------------------------------------------------------------------ the recurrence, role by role
    S, U = "root_species", "root_object"
    CH = {0: f"left({U})", 1: f"right({U})"}
    LCAK, INHK = KINDS["lca"], KINDS["inh"]

    def filt(role, x):
        return {"left": f"((not leaf({S})) and anc(left({S}), {x}))", "right": f"((not leaf({S})) and anc(right({S}), {x}))",
                "conserved": f"anc({S}, {x})", "segment": f"anc({S}, {x})",
                "separate": f"(not anc({S}, {x}) and not anc({x}, {S}))"}[role]

    def value(voc, c, pk, role, x, ck):
        """price of placing child c at species x with kind ck in the given role under a parent of kind pk; voc = vocabulary"""
        gv, fl, sl, child, ll, li = voc(c)
        asd = f"(dist({S}, {x}) * {fl})"
        base = {"conserved": asd, "segment": asd, "left": f"({asd} - {fl})", "right": f"({asd} - {fl})", "separate": "0"}[role]
        charged = role in ("conserved", "left", "right")
        if pk == "inh":
            e = f"({sl} if {ck} == {LCAK} else 0)" if charged else "0"
        else:
            e = f"({ll} if {ck} == {LCAK} else {li})" if charged else f"(0 if {ck} == {LCAK} else {li})"
        return f"({base} + cell3v({gv}, {child}, {x}, {ck}) + {e})"

    # vocabulary of the loop (current table, the code's local variables; only for the child being processed)
    LOOPV = lambda c: ("table.g_val", "floss_cost", "sloss_cost", "child_object", "lca_lca_dist", "lca_inh_dist")
    # vocabulary of the postcondition / of the cuts (entry table, cost dictionary, containment of the required contents)
    SUBSET = lambda c: f"(lca_sets[{U}] <= lca_sets[{CH[c]}])"
    POSTV = lambda c: ("old(table.g_val)", "costs[Event.FULL_LOSS]", "costs[Event.SEGMENTAL_LOSS]", CH[c],
                       f"(0 if {SUBSET(c)} else costs[Event.SEGMENTAL_LOSS])", f"(inf if {SUBSET(c)} else 0)")
    TREE = "species_lca.tree"

    def entry(c, pk, role):
        return f"subprobs[{c}][{KINDS[pk]}].{role}"

    def AGG(e, role, F, k):
        """entry e = aggregate of (x, ck) |-> F(x, ck) over the first k nodes of the enumeration that pass the role's filter.
        VALUE level only (lower bound, attained, retained-tag existence); one bundled clause per entry."""
        IN = lambda x: f"(anc({TREE}, {x}) and lvl_idx({TREE}, {x}) < {k} and {filt(role, x)})"
        parts = [
            f"{e}._merge_policy == MergePolicy.MIN and {e}._retention_policy == table.retention_policy",
            f"implies({e}._retention_policy == RetentionPolicy.ANY, forall(lambda t, t2: implies(t in {e}._infos and t2 in {e}._infos, t == t2), Tag, Tag))",
            f"forall(lambda t: implies(t in {e}._infos, tag_truthy(t)), Tag)",
            f"forall(lambda x, ck: implies({IN('x')}, not ({F('x', 'ck')} < {e}._value)), Node, SyntenyAssignment)",
            f"({e}._value == inf or exists(lambda x, ck: {IN('x')} and {F('x', 'ck')} == {e}._value, Node, SyntenyAssignment))",
            f"implies(exists(lambda x: {IN('x')}, Node), exists(lambda t: t in {e}._infos, Tag))",
            f"implies(not exists(lambda t: t in {e}._infos, Tag), {e}._value == inf)",
            f"{e}._value != -inf",
        ]
        return [(e, " and ".join(f"({p_})" for p_ in parts))]

    INV = [
        ("stable", "table.g_val == old(table.g_val) and table.g_tags == old(table.g_tags)"),
        ("locals", f"child_object == ({CH[0]} if child_index == 0 else {CH[1]}) and sloss_cost == costs[Event.SEGMENTAL_LOSS] and floss_cost == costs[Event.FULL_LOSS]"),
    ]
    for pk in ("inh", "lca"):
        for role in ROLES:
            INV += AGG(f"subprobs[child_index][{KINDS[pk]}].{role}", role,
                       lambda x, ck, pk=pk, role=role: value(LOOPV, None, pk, role, x, ck), "k")

    PRE = [
        ("species-tree", f"binary({TREE}) and rootof({TREE}) == {TREE} and rootof({S}) == {TREE}"),
        ("object-node", f"binary(rootof({U})) and not leaf({U})"),
        ("costs-present", "Event.SPECIATION in costs and Event.DUPLICATION in costs and Event.HORIZONTAL_TRANSFER in costs and Event.FULL_LOSS in costs and Event.SEGMENTAL_LOSS in costs"),
        ("costs", "is_fin(costs[Event.SPECIATION]) and is_fin(costs[Event.DUPLICATION]) and is_fin(costs[Event.FULL_LOSS]) and is_fin(costs[Event.SEGMENTAL_LOSS]) and costs[Event.SPECIATION] >= 0 and costs[Event.DUPLICATION] >= 0 and costs[Event.HORIZONTAL_TRANSFER] >= 0 and costs[Event.FULL_LOSS] >= 0 and costs[Event.SEGMENTAL_LOSS] >= 0"),
        ("table-policies", "table.merge_policy == MergePolicy.MIN and table.retention_policy != RetentionPolicy.NONE"),
        ("table-no-neg-inf", "forall(lambda a, b, c: cell3v(table.g_val, a, b, c) != -inf, Node, Node, SyntenyAssignment)"),
        ("required-sets", f"({U} in lca_sets) and ({CH[0]} in lca_sets) and ({CH[1]} in lca_sets)"),
    ]
    # ---- the six families of joint placements (x, kx) of the left child and (y, ky) of the right child
    FAMS = [  # (role of child 0, role of child 1, event cost)
        ("left", "right", "costs[Event.SPECIATION]"), ("right", "left", "costs[Event.SPECIATION]"),
        ("conserved", "segment", "costs[Event.DUPLICATION]"), ("segment", "conserved", "costs[Event.DUPLICATION]"),
        ("conserved", "separate", "costs[Event.HORIZONTAL_TRANSFER]"), ("separate", "conserved", "costs[Event.HORIZONTAL_TRANSFER]"),
    ]
    CODE_COST = {"costs[Event.SPECIATION]": "costs[NodeEvent.SPECIATION]", "costs[Event.DUPLICATION]": "costs[NodeEvent.DUPLICATION]",
                 "costs[Event.HORIZONTAL_TRANSFER]": "costs[NodeEvent.HORIZONTAL_TRANSFER]"}
    INTREE = lambda x, y: f"(rootof({x}) == {TREE} and rootof({y}) == {TREE})"

    def family(pk, i, x, kx, y, ky):
        r0, r1, cost = FAMS[i]
        cond = f"({filt(r0, x)} and {filt(r1, y)})"
        term = f"({cost} + {value(POSTV, 0, pk, r0, x, kx)} + {value(POSTV, 1, pk, r1, y, ky)})"
        return cond, term

    def cellnew(pk):
        return f"cell3v(table.g_val, {U}, {S}, {KINDS[pk]})"

    def cellold(pk):
        return f"cell3v(old(table.g_val), {U}, {S}, {KINDS[pk]})"

    POST = []
    for pk in ("inh", "lca"):
        NEWV, OLDV = cellnew(pk), cellold(pk)
        POST.append((f"{pk}/not-worse-than-old", f"not ({OLDV} < {NEWV})"))
        disj = []
        for i in range(6):
            cond, term = family(pk, i, "x", "kx", "y", "ky")
            POST.append((f"{pk}/lower-bound/{i}", f"forall(lambda x, kx, y, ky: implies({INTREE('x', 'y')} and {cond}, not ({term} < {NEWV})), Node, SyntenyAssignment, Node, SyntenyAssignment)"))
            disj.append(f"exists(lambda x, kx, y, ky: {INTREE('x', 'y')} and {cond} and {term} == {NEWV}, Node, SyntenyAssignment, Node, SyntenyAssignment)")
        # NOT claimed here: "the new value is attained by one of the placements" and the ALL / ANY tag clauses (bounded run-time contract only)
    POST.append(("frame", f"""forall(lambda a, b, c: implies(a != {U} or b != {S}, cell3v(table.g_val, a, b, c) == cell3v(old(table.g_val), a, b, c)
                  and forall(lambda t: cell3t(table.g_val, table.g_tags, a, b, c, t) == cell3t(old(table.g_val), old(table.g_tags), a, b, c, t), Tag)), Node, Node, SyntenyAssignment)"""))
    POST.append(("no-neg-inf", "forall(lambda a, b, c: cell3v(table.g_val, a, b, c) != -inf, Node, Node, SyntenyAssignment)"))
    POST.append(("required-sets-unchanged", "lca_sets == old(lca_sets)"))

    # ---- cuts around the two cell updates (one per parent kind; `kind` is the loop variable of the unrolled loop)
    def cuts_for(pk):
        before, end = [], []
        names = [f"star{i}" for i in range(6)]
        for i, (r0, r1, cost) in enumerate(FAMS):
            e0, e1 = entry(0, pk, r0), entry(1, pk, r1)
            before += [
                f"assert {names[i]}._value == {cost} + {e0}._value + {e1}._value",
                f"assert implies(exists(lambda a: a in {e0}._infos, Tag) and exists(lambda b: b in {e1}._infos, Tag), exists(lambda t: t in {names[i]}._infos, Tag))",
                f"assert implies(not (exists(lambda a: a in {e0}._infos, Tag) and exists(lambda b: b in {e1}._infos, Tag)), {names[i]}._value == inf and not exists(lambda t: t in {names[i]}._infos, Tag))",
                f"assert {names[i]}._value != -inf",
            ]
        for n in names:
            before.append(f"assert implies(exists(lambda t: t in {n}._infos, Tag), exists(lambda i: 0 <= i and i < len(arg_candidates) and arg_candidates[i].value == {n}._value, Int))")
        before.append("assert forall(lambda i: implies(0 <= i and i < len(arg_candidates), " + " or ".join(f"arg_candidates[i].value == {n}._value" for n in names) + "), Int)")
        return before

    def after_for(pk):
        NEWV, OLDV = cellnew(pk), cellold(pk)
        out = []
        for i in range(6):
            cond, term = family(pk, i, "x", "kx", "y", "ky")
            out.append(f"assert not (star{i}._value < {NEWV})")
        out.append(f"assert {NEWV} == {OLDV} or " + " or ".join(f"{NEWV} == star{i}._value" for i in range(6)))
        return out

    AFTER = ["if kind == SyntenyAssignment.LCA:\n" + "".join("    " + " ".join(x.split()) + "\n" for x in after_for("lca"))
             + "else:\n" + "".join("    " + " ".join(x.split()) + "\n" for x in after_for("inh"))]
    norm = lambda xs: "\n".join(" ".join(x.split()) for x in xs) + "\n"
    # the two updates are the two iterations of `for kind in SyntenyAssignment` (LCA first): the cuts are selected by the loop variable
    BEFORE = ["if kind == SyntenyAssignment.LCA:\n" + "".join("    " + " ".join(x.split()) + "\n" for x in cuts_for("lca"))
              + "else:\n" + "".join("    " + " ".join(x.split()) + "\n" for x in cuts_for("inh"))]

    add(Contract(
        f"{M}:_compute_uspfs_entry",
        params={"species_lca": "LowestCommonAncestor", "root_species": "Node", "root_object": "Node", "lca_sets": "Map[Node, Set[Elem]]",
                "table": "Table3", "costs": "Map[Event, Ext]"},
        requires=PRE,
        ensures=POST,
        modifies=["table.g_val", "table.g_tags"], globals=G, fuel=2,
        loops={1: LoopSpec(header="for desc_species in species_lca.tree.traverse()", index="k", length="n", invariants=INV)},
        inline_calls=["_make_event_combinator"],
        before_call={"Table3.cell3_update": BEFORE},
        after={"table[root_object][root_species][kind].update(": AFTER},
        props=["C03", "C05"]))
