"""Contracts for superrec2.utils.dynamic_programming (property C16; consumed by C01-C05)."""
from pyvc.contracts import Contract, LoopSpec, Clause
from pyvc.values import UFun
from pyvc.types import PT

M = "superrec2.utils.dynamic_programming"
REQUIRES = ["subsequences"]

# "tagged" = truthy info (that is what the code tests)
RHS_ALL = """((t in old(self._infos) and old(self._value) == self._value)
              or exists(lambda i: 0 <= i and i < {N} and candidates[i].value == self._value
                                   and candidates[i].info == t and tag_truthy(t), Int))"""


def setup(E):
    E.declare_ref("Tag", truthy="tag_truthy")
    E.declare_enum("MergePolicy", ["MIN", "MAX"])
    E.declare_enum("RetentionPolicy", ["NONE", "ANY", "ALL"])
    E.declare_record("Candidate", [("value", "Ext"), ("info", "Opt[Tag]")], defaults={"info": None})
    E.declare_class("Entry", {"_value": "Ext", "_infos": "Set[Tag]", "_merge_policy": "MergePolicy", "_retention_policy": "RetentionPolicy"})
    import infinity

    # a is strictly better than b under the merge policy
    E.spec("better", "mp: MergePolicy, a: Ext, b: Ext", "Bool", "a < b if mp == MergePolicy.MIN else a > b")
    E.spec("worst", "mp: MergePolicy", "Ext", "inf if mp == MergePolicy.MIN else -inf")
    E.native_ns["tag_truthy"] = bool
    # representation invariant of an entry
    WF = [
        ("wf-none", "implies(self._retention_policy == RetentionPolicy.NONE, forall(lambda t: not (t in self._infos), Tag))"),
        ("wf-any", "implies(self._retention_policy == RetentionPolicy.ANY, forall(lambda t, u: implies(t in self._infos and u in self._infos, t == u), Tag, Tag))"),
        ("wf-truthy", "forall(lambda t: implies(t in self._infos, tag_truthy(t)), Tag)"),
    ]
    G = {"inf": E.globals["inf"]}
    add = E.registry.add

    add(Contract(
        f"{M}:Entry.__init__@policies",
        params={"self": "Entry", "value": "MergePolicy", "infos": "RetentionPolicy", "merge_policy": "Opt[MergePolicy]", "retention_policy": "Opt[RetentionPolicy]"},
        defaults={"merge_policy": None, "retention_policy": None},
        requires=["merge_policy is None", "retention_policy is None"],
        ensures=[
            "self._value == worst(value)",
            "forall(lambda t: not (t in self._infos), Tag)",
            "self._merge_policy == value",
            "self._retention_policy == infos",
        ],
        modifies=["self.*"], globals=G, props=["C16"],
        canary="self._value == worst(MergePolicy.MAX)",
    ))
    add(Contract(
        f"{M}:Entry.__init__@values",
        params={"self": "Entry", "value": "Ext", "infos": "Seq[Tag]", "merge_policy": "Opt[MergePolicy]", "retention_policy": "Opt[RetentionPolicy]"},
        defaults={"merge_policy": None, "retention_policy": None},
        ensures=[
            "self._value == value",
            "forall(lambda t: (t in self._infos) == (t in infos), Tag)",
            "self._merge_policy == (MergePolicy.MIN if merge_policy is None else the(merge_policy))",
            "self._retention_policy == (RetentionPolicy.NONE if retention_policy is None else the(retention_policy))",
            Clause("self._infos is not infos__now", name="owns-its-tag-set", native_only=True),
        ],
        modifies=["self.*"], globals=G, props=["C16"],
    ))
    add(Contract(f"{M}:Entry.value", params={"self": "Entry"}, returns="Ext", ensures=["result == self._value"], props=["C16"]))
    add(Contract(f"{M}:Entry.infos", params={"self": "Entry"}, returns="Set[Tag]", ensures=["result == self._infos"], props=["C16"]))
    add(Contract(f"{M}:Entry.is_infinite", params={"self": "Entry"}, returns="Bool",
                 ensures=["result == (not is_fin(self._value))"], props=["C16"]))

    upd_inv_all = RHS_ALL.format(N="k")
    upd_post_all = RHS_ALL.format(N="len(candidates)")
    add(Contract(
        f"{M}:Entry.update",
        params={"self": "Entry", "candidates": "Seq[Candidate]"}, vararg="candidates",
        requires=WF,
        ensures=WF + [
            ("value-not-worse-than-old", "not better(self._merge_policy, old(self._value), self._value)"),
            ("value-not-worse-than-any-candidate",
             "forall(lambda i: implies(0 <= i and i < len(candidates), not better(self._merge_policy, candidates[i].value, self._value)), Int)"),
            ("value-is-attained",
             "self._value == old(self._value) or exists(lambda i: 0 <= i and i < len(candidates) and candidates[i].value == self._value, Int)"),
            ("tags-all", f"implies(self._retention_policy == RetentionPolicy.ALL, forall(lambda t: (t in self._infos) == {upd_post_all}, Tag))"),
            ("tags-any-sound", f"implies(self._retention_policy == RetentionPolicy.ANY, forall(lambda t: implies(t in self._infos, {upd_post_all}), Tag))"),
            ("tags-any-nonempty", f"""implies(self._retention_policy == RetentionPolicy.ANY and exists(lambda t: {upd_post_all}, Tag),
                                           exists(lambda t: t in self._infos, Tag))"""),
            ("tags-none", "implies(self._retention_policy == RetentionPolicy.NONE, forall(lambda t: not (t in self._infos), Tag))"),
            ("policies-unchanged", "self._merge_policy == old(self._merge_policy) and self._retention_policy == old(self._retention_policy)"),
        ],
        modifies=["self._value", "self._infos"], globals=G,
        loops={0: LoopSpec(
            header="for candidate in candidates", index="k", length="n",
            invariants=WF + [
                ("value-not-worse-than-old", "not better(self._merge_policy, old(self._value), self._value)"),
                ("value-not-worse-than-any-candidate",
                 "forall(lambda i: implies(0 <= i and i < k, not better(self._merge_policy, candidates[i].value, self._value)), Int)"),
                ("value-is-attained",
                 "self._value == old(self._value) or exists(lambda i: 0 <= i and i < k and candidates[i].value == self._value, Int)"),
                ("tags-all", f"implies(self._retention_policy == RetentionPolicy.ALL, forall(lambda t: (t in self._infos) == {upd_inv_all}, Tag))"),
                ("tags-any-sound", f"implies(self._retention_policy == RetentionPolicy.ANY, forall(lambda t: implies(t in self._infos, {upd_inv_all}), Tag))"),
                ("tags-any-nonempty", f"""implies(self._retention_policy == RetentionPolicy.ANY and exists(lambda t: {upd_inv_all}, Tag),
                                               exists(lambda t: t in self._infos, Tag))"""),
                ("policies-unchanged", "self._merge_policy == old(self._merge_policy) and self._retention_policy == old(self._retention_policy)"),
            ])},
        canary="self._value == old(self._value)",
        props=["C16", "C05"],
    ))

    # ---- Entry.combine: optimum over all pairs of retained candidates
    CAND = PT("rec", name="Candidate")
    COMB = "combinator(Candidate(self._value, a), Candidate(other._value, b))"
    INPAIR = "(a in self._infos and b in other._infos{EXTRA})"

    def comb_clauses(extra):
        inp = INPAIR.format(EXTRA=extra)
        hit = f"({inp} and {COMB}.value == result._value and {COMB}.info == t and tag_truthy(t))"
        return [
            ("policies", "result._merge_policy == self._merge_policy and result._retention_policy == self._retention_policy"),
            ("value-not-worse-than-any-pair",
             f"forall(lambda a, b: implies({inp}, not better(self._merge_policy, {COMB}.value, result._value)), Tag, Tag)"),
            ("value-is-attained",
             f"result._value == worst(self._merge_policy) or exists(lambda a, b: {inp} and {COMB}.value == result._value, Tag, Tag)"),
            ("tags-all", f"implies(self._retention_policy == RetentionPolicy.ALL, forall(lambda t: (t in result._infos) == exists(lambda a, b: {hit}, Tag, Tag), Tag))"),
            ("tags-any-sound", f"implies(self._retention_policy == RetentionPolicy.ANY, forall(lambda t: implies(t in result._infos, exists(lambda a, b: {hit}, Tag, Tag)), Tag))"),
            ("tags-any-nonempty", f"""implies(self._retention_policy == RetentionPolicy.ANY and exists(lambda t, a, b: {hit}, Tag, Tag, Tag),
                                           exists(lambda t: t in result._infos, Tag))"""),
            ("wf-none", "implies(result._retention_policy == RetentionPolicy.NONE, forall(lambda t: not (t in result._infos), Tag))"),
            ("wf-any", "implies(result._retention_policy == RetentionPolicy.ANY, forall(lambda t, u: implies(t in result._infos and u in result._infos, t == u), Tag, Tag))"),
            ("wf-truthy", "forall(lambda t: implies(t in result._infos, tag_truthy(t)), Tag)"),
        ]

    add(Contract(
        f"{M}:Entry.combine",
        params={"self": "Entry", "other": "Entry", "combinator": UFun("comb", [CAND, CAND], CAND)},
        returns="Entry",
        ensures=comb_clauses("") + [
            # the same tag clauses in a form without existentials (consequences of the clauses above, stated for the callers):
            # every optimal tagged pair is retained under ALL; some pair being optimal and tagged forces a retained tag under ANY
            ("tags-all-complete", f"""implies(self._retention_policy == RetentionPolicy.ALL, forall(lambda a, b: implies(
                   a in self._infos and b in other._infos and {COMB}.value == result._value and {COMB}.info is not None and tag_truthy(the({COMB}.info)),
                   the({COMB}.info) in result._infos), Tag, Tag))"""),
            ("tags-any-nonempty-forall", f"""implies(self._retention_policy == RetentionPolicy.ANY, forall(lambda a, b: implies(
                   a in self._infos and b in other._infos and {COMB}.value == result._value and {COMB}.info is not None and tag_truthy(the({COMB}.info)),
                   exists(lambda t: t in result._infos, Tag)), Tag, Tag))"""),
        ],
        globals=G,
        loops={0: LoopSpec(
            header="for (ours, theirs) in product(self._infos, other.infos())", index="k", length="n", seq="P",
            invariants=comb_clauses(" and P_idx(a, b) < k"))},
        canary="result._value == worst(self._merge_policy)",
        props=["C16", "C05"],
        note="the combinator is a pure total function of its two arguments",
    ))
    # ---- Entry.__iter__: one candidate per retained tag, all with the entry's value
    add(Contract(
        f"{M}:Entry.__iter__",
        params={"self": "Entry"}, returns="Seq[Candidate]",
        ensures=[
            ("each-yielded-is-retained", "forall(lambda i: implies(0 <= i and i < len(result), result[i].value == self._value and result[i].info is not None and the(result[i].info) in self._infos), Int)"),
            ("each-retained-is-yielded", "forall(lambda t: implies(t in self._infos, exists(lambda i: 0 <= i and i < len(result) and result[i].info == t, Int)), Tag)"),
        ],
        loops={0: LoopSpec(
            header="for info in self._infos", index="k", length="n", seq="P",
            invariants=[
                "len(__yielded__) == k",
                "forall(lambda i: implies(0 <= i and i < k, __yielded__[i].value == self._value and __yielded__[i].info is not None and the(__yielded__[i].info) == P(i)), Int)",
            ])},
        locals={"__yielded__": "Seq[Candidate]"},
        props=["C16"],
    ))


# ---------------------------------------------------------------------------- bounded scopes
def _scopes(E):
    import itertools
    from pyvc.driver import Scope
    from pyvc import native

    for n in ("MergePolicy", "RetentionPolicy", "Candidate", "Entry", "Table", "DictDimension", "ListDimension"):
        E.native_imports[n] = (M, n)

    TAGS = [None, "a", "b"]

    def mk_entry(mod, merge, ret, history):
        e = mod.Entry(getattr(mod.MergePolicy, merge), getattr(mod.RetentionPolicy, ret))
        for batch in history:
            e.update(*[mod.Candidate(_val(v), t) for v, t in batch])
        return e

    def _val(v):
        import infinity
        return {"inf": infinity.inf, "-inf": -infinity.inf}.get(v, v)

    def universe(tags=("a", "b", "c"), ints=range(-1, 7)):
        u = native.Universe()
        u.domains["Tag"] = list(tags)
        u.domains["Int"] = list(ints)
        return u

    def gen_update(tier, rng):
        maxlen = {"quick": 2, "concretise": 3}.get(tier, 3)
        cands = [(v, t) for v in (0, 1, 2) for t in TAGS]
        for merge in ("MIN", "MAX"):
            for ret in ("NONE", "ANY", "ALL"):
                for n in range(0, maxlen + 1):
                    for hist in itertools.product(cands, repeat=n):
                        for split in range(0, n + 1):
                            yield {"merge": merge, "ret": ret, "history": [list(map(list, hist[:split]))], "candidates": list(map(list, hist[split:]))}
        for _ in range(200 if tier != "thorough" else 3000):
            n = rng.randrange(1, 9)
            hist = [[rng.choice([0, 1, 2, 3, "inf", "-inf"]), rng.choice(TAGS + ["c"])] for _ in range(n)]
            split = rng.randrange(0, n + 1)
            yield {"merge": rng.choice(["MIN", "MAX"]), "ret": rng.choice(["NONE", "ANY", "ALL"]),
                   "history": [hist[:split]], "candidates": hist[split:]}

    def build_update(recipe, src_root):
        mod = native.import_real(M, src_root)
        e = mk_entry(mod, recipe["merge"], recipe["ret"], recipe["history"])
        cands = [mod.Candidate(_val(v), t) for v, t in recipe["candidates"]]
        return (lambda self, *cs: self.update(*cs)), {"self": e, "candidates": cands}, universe(ints=range(-1, len(cands) + 1))

    E.registry.scopes[f"{M}:Entry.update"] = Scope(
        gen_update, build_update,
        describe="all update histories of length <= 2 (3 when concretising / thorough) over values {0,1,2} x tags {None,a,b}, split into a prior batch and the checked call in every way, 2x3 policies; 300 (3000) random longer histories with +-inf",
        nontrivial=lambda r: len(r["candidates"]) > 0)
    E._dp_helpers = dict(mk_entry=mk_entry, val=_val, universe=universe)


_setup_contracts = setup


def setup(E):  # noqa: F811
    _setup_contracts(E)
    _scopes(E)


def _more_scopes(E):
    import itertools
    from pyvc.driver import Scope, Standin
    from pyvc import native
    H = E._dp_helpers

    def gen_combine(tier, rng):
        cands = [(v, t) for v in (0, 1, 2) for t in (None, "a", "b")]
        n = 2 if tier != "thorough" else 3
        combs = ["add", "mul-tag", "drop-left", "left-only-tagged"]
        for merge in ("MIN", "MAX"):  # operands whose optimum is infinite but tagged
            for ret in ("ANY", "ALL"):
                for v1 in ("inf", "-inf", 1):
                    for v2 in ("inf", "-inf", 2):
                        for comb in ("drop-left", "min-value"):
                            yield {"merge": merge, "ret": ret, "h1": [[[v1, "a"], [v1, "b"]]], "h2": [[[v2, "b"]]], "comb": comb}
        for merge in ("MIN", "MAX"):
            for ret in ("NONE", "ANY", "ALL"):
                for j1, h1 in enumerate(itertools.product(cands if tier == "thorough" else cands[1::2] + cands[:1], repeat=n)):
                    if tier == "thorough" and j1 % 5:
                        continue  # every fifth history of length 3 (the full product is ~440 000 evaluations)
                    for h2 in itertools.product(cands[::2], repeat=n - 1):
                        for comb in combs:
                            yield {"merge": merge, "ret": ret, "h1": [list(map(list, h1))], "h2": [list(map(list, h2))], "comb": comb}

    def combinators(mod):
        C = mod.Candidate
        return {
            "add": lambda l, r: C(l.value + r.value, (l.info, r.info)),
            "mul-tag": lambda l, r: C(l.value * 2 + r.value, l.info + r.info),
            "drop-left": lambda l, r: C(r.value, r.info),
            "min-value": lambda l, r: C(min(l.value, r.value), (l.info, r.info)),
            "left-only-tagged": lambda l, r: C(l.value - r.value, (l.info,) if l.info == "a" else None),
        }

    def build_combine(recipe, src_root):
        mod = native.import_real(M, src_root)
        e1 = H["mk_entry"](mod, recipe["merge"], recipe["ret"], recipe["h1"])
        e2 = H["mk_entry"](mod, recipe["merge"], recipe["ret"], recipe["h2"])
        comb = combinators(mod)[recipe["comb"]]
        tags = {"a", "b"} | {comb(mod.Candidate(0, x), mod.Candidate(0, y)).info for x in "ab" for y in "ab"}
        tags.discard(None)
        return (lambda self, other, combinator: self.combine(other, combinator)), {"self": e1, "other": e2, "combinator": comb}, H["universe"](tags=sorted(tags, key=repr))

    E.registry.scopes[f"{M}:Entry.combine"] = Scope(
        gen_combine, build_combine,
        describe="pairs of entries built from all histories of length 2 x 1 (3 x 2 thorough) over {0,1,2} x {None,a,b}, 2x3 policies, four combinators (tagging all / some / none of the pairs)")

    def gen_iter(tier, rng):
        cands = [(v, t) for v in (0, 1) for t in (None, "a", "b", "c")]
        for ret in ("NONE", "ANY", "ALL"):
            for h in itertools.product(cands, repeat=3):
                yield {"merge": "MIN", "ret": ret, "history": [list(map(list, h))]}

    def build_iter(recipe, src_root):
        mod = native.import_real(M, src_root)
        e = H["mk_entry"](mod, recipe["merge"], recipe["ret"], recipe["history"])
        return (lambda self: list(iter(self))), {"self": e}, H["universe"]()

    def gen_init_values(tier, rng):
        for shape in ("list", "set", "tuple", "entry-infos"):
            for tags in ([], ["a"], ["a", "b"]):
                for mp in (None, "MIN", "MAX"):
                    for rp in (None, "NONE", "ANY", "ALL"):
                        if rp == "ANY" and len(tags) > 1:
                            continue
                        yield {"shape": shape, "tags": tags, "value": 3, "merge": mp, "ret": rp}

    def build_init_values(recipe, src_root):
        mod = native.import_real(M, src_root)
        tags = recipe["tags"]
        if recipe["shape"] == "entry-infos":
            src = mod.Entry(mod.MergePolicy.MIN, mod.RetentionPolicy.ALL)
            src.update(*[mod.Candidate(3, t) for t in tags])
            infos = src.infos()
        else:
            infos = {"list": list, "set": set, "tuple": tuple}[recipe["shape"]](tags)
        obj = object.__new__(mod.Entry)
        mp = getattr(mod.MergePolicy, recipe["merge"]) if recipe["merge"] else None
        rp = getattr(mod.RetentionPolicy, recipe["ret"]) if recipe["ret"] else None
        return (lambda self, value, infos, merge_policy, retention_policy: mod.Entry.__init__(self, value, infos, merge_policy, retention_policy)), \
            {"self": obj, "value": recipe["value"], "infos": infos, "merge_policy": mp, "retention_policy": rp}, H["universe"](ints=range(-1, 4))

    E.registry.scopes[f"{M}:Entry.__init__@values"] = Scope(gen_init_values, build_init_values,
        describe="explicit value + tags given as list / set / tuple / another entry's live tag set, all policy arguments")

    E.registry.scopes[f"{M}:Entry.__iter__"] = Scope(gen_iter, build_iter, describe="entries after all histories of length 3 over {0,1} x {None,a,b,c}")

    # ---- Table / TableProxy / EntryProxy: bounded stand-in against a reference model (rank 1-3)
    def table_standin(tier, rng, src_root):
        import infinity
        mod = native.import_real(M, src_root)
        inf = infinity.inf
        n_hist = 150 if tier != "thorough" else 2500
        evals = 0
        distinct = set()
        viol = []
        samples = []
        for it in range(n_hist):
            rank = 1 + it % 3
            merge = rng.choice(["MIN", "MAX"])
            ret = rng.choice(["NONE", "ANY", "ALL"])
            ops = []
            dims = [rng.choice(["dict", "dict", "list"]) for _ in range(rank)]
            for _ in range(rng.randrange(1, 7)):
                key = tuple((rng.choice("xyz") if d == "dict" else rng.randrange(3)) for d in dims)
                kind = rng.choice(["update", "set", "read", "combine", "keys"])
                cands = [[rng.choice([0, 1, 2, "inf"]), rng.choice([None, "a", "b"])] for _ in range(rng.randrange(0, 3))]
                ops.append([kind, list(key), cands])
            recipe = {"rank": rank, "dims": dims, "merge": merge, "ret": ret, "ops": ops}
            what = table_replay(recipe, src_root)
            evals += 1
            distinct.add(repr(recipe))
            if len(samples) < 2:
                samples.append(recipe)
            if what:
                viol.append((what, recipe))
                break
        return dict(evaluations=evals, distinct_nontrivial=len(distinct), violations=viol, samples=samples,
                    rule="random operation histories (update / __setitem__ / reads / combine / keys) on tables of rank 1-3 compared with a reference model: unwritten cell reads (worst, {}), update creates the cell iff some candidate is finite and then behaves like Entry.update")

    def table_replay(recipe, src_root):
        import infinity
        mod = native.import_real(M, src_root)
        inf = infinity.inf
        rank, merge, ret = recipe["rank"], recipe["merge"], recipe["ret"]
        mp, rp = getattr(mod.MergePolicy, merge), getattr(mod.RetentionPolicy, ret)
        worst = inf if merge == "MIN" else -inf
        dims = recipe.get("dims") or ["dict"] * rank
        table = mod.Table([mod.DictDimension() if d == "dict" else mod.ListDimension(3) for d in dims], mp, rp)
        model = {}
        kept = {}  # proxies obtained earlier and kept by the caller

        def cell(key):
            x = table
            for k in key:
                x = x[k]
            return x

        for kind, key, cands in recipe["ops"]:
            key = tuple(key)
            cs = [mod.Candidate(H["val"](v), t) for v, t in cands]
            if kind in ("update", "set"):
                if kind == "set":
                    cs = cs[:1] or [mod.Candidate(1, "a")]
                    x = table
                    for k in key[:-1]:
                        x = x[k]
                    x[key[-1]] = cs[0]
                else:
                    cell(key).update(*cs)
                if any(not infinity.is_infinite(c.value) for c in cs):
                    ref = model.setdefault(key, mod.Entry(mp, rp))
                    ref.update(*cs)
            elif kind == "combine":
                other = mod.Entry(mp, rp)
                other.update(mod.Candidate(1, "p"), mod.Candidate(1, "q"))
                got = cell(key).combine(other, lambda l, r: mod.Candidate(l.value + r.value, (l.info, r.info)))
                exp = (model[key] if key in model else mod.Entry(mp, rp)).combine(other, lambda l, r: mod.Candidate(l.value + r.value, (l.info, r.info)))
                if got.value() != exp.value() or set(got.infos()) != set(exp.infos()):
                    return f"combine on cell {key}: got ({got.value()}, {set(got.infos())}) expected ({exp.value()}, {set(exp.infos())})"
            elif kind == "keys":
                ks = set(table.keys())
                need = {k[0] for k in model}
                if dims[0] == "list" and ks != {0, 1, 2}:
                    return f"keys() of a list dimension of length 3 gives {sorted(ks)}"
                if not need <= ks:
                    return f"keys() misses written first-level keys {need - ks}"
            kept.setdefault(key, cell(key))
            for k2, c in [(k, cell(k)) for k in list(model) + [key]] + list(kept.items()):
                exp = model.get(k2)
                ev, ei = (exp.value(), set(exp.infos())) if exp is not None else (worst, set())
                if c.value() != ev or set(c.infos()) != ei or c.is_infinite() != infinity.is_infinite(ev) or len(c) != len(ei) or {x.info for x in c} != ei:
                    return f"cell {k2} reads ({c.value()}, {set(c.infos())}) expected ({ev}, {ei})"
        return None

    sd = Standin("dynamic_programming:Table-proxies", table_standin,
                 describe="150 (2500 thorough) random histories of <= 6 operations on Table of rank 1-3, every dimension a DictDimension over keys {x,y,z} or a ListDimension(3); bounded, not a proof")
    sd.replay = table_replay
    E._dp_table_standin = sd


_setup2 = setup


def setup(E):  # noqa: F811
    _setup2(E)
    _more_scopes(E)


def _proxy_contracts(E):
    """EntryProxy read accessors: a cell whose storage slot holds None (never written) reads as infinitely bad with no tags, and
    an existing cell reads as its Entry.  `_get_real` (the walk through the nested dict/list storage) is the assumed part, validated
    by the bounded stand-in `dynamic_programming:Table-proxies`; the ghost fields name what it returns."""
    add = E.registry.add
    E.declare_class("ProxiedTable", {"merge_policy": "MergePolicy", "retention_policy": "RetentionPolicy"})
    E.declare_class("EntryProxy", {"_parent": "ProxiedTable", "g_present": "Bool", "g_real": "Entry"})
    add(Contract(
        f"{M}:EntryProxy._get_real", kind="assumed", params={"self": "EntryProxy"}, returns="Opt[Entry]",
        ensures=["(result is not None) == self.g_present",
                 "implies(self.g_present, result._value == self.g_real._value and result._infos == self.g_real._infos)"],
        props=["C16"],
        note="storage walk `for item in self._key: entry = entry[item]` over nested dict/list dimensions: not modelled; the ghost fields g_present/g_real name its result",
    ))
    add(Contract(f"{M}:EntryProxy.value", params={"self": "EntryProxy"}, returns="Ext",
                 ensures=["result == (self.g_real._value if self.g_present else worst(self._parent.merge_policy))"], props=["C16"],
                 canary="not self.g_present and self._parent.merge_policy == MergePolicy.MAX"))
    add(Contract(f"{M}:EntryProxy.infos", params={"self": "EntryProxy"}, returns="Set[Tag]",
                 ensures=["forall(lambda t: (t in result) == (self.g_present and t in self.g_real._infos), Tag)"], props=["C16"]))
    add(Contract(f"{M}:EntryProxy.is_infinite", params={"self": "EntryProxy"}, returns="Bool",
                 ensures=["result == (not self.g_present or not is_fin(self.g_real._value))"], props=["C16"]))


_setup3 = setup


def setup(E):  # noqa: F811
    _setup3(E)
    _proxy_contracts(E)
