"""Contracts for superrec2.compute.exhaustive: `reconcile_exhaustive` keeps exactly the cheapest enumerated reconciliations (C01, C05).

The enumerator `generate_all` is ASSUMED to yield a sequence `all_outputs(rec_input)` (its content - every reconciliation of the search
space - is what the bounded stand-in compares with brute force).  A `ReconciliationOutput` is seen here as an opaque value with a cost
`out_cost(o)` (what `ReconciliationOutput.cost()` returns; that this equals the documented event model is C06, proved separately).
Proved here, for every sequence and every retention policy: the returned tag set contains only enumerated outputs of minimum cost; under
ALL every enumerated output of minimum cost, under ANY exactly one if there is any, under NONE nothing.
"""
from pyvc.contracts import Contract, LoopSpec

M = "superrec2.compute.exhaustive"
REQUIRES = ["dynamic_programming"]


def setup(E):
    add = E.registry.add
    G = {"inf": E.globals["inf"]}
    E.declare_ref("Out")
    E.declare_ref("RecIn")
    E.declare_ufun("all_outputs", ["RecIn"], "Seq[Out]")
    E.declare_ufun("out_cost", ["Out"], "Ext")
    E.declare_ufun("tag_of_out", ["Out"], "Tag")
    E.declare_ufun("out_of_tag", ["Tag"], "Out")
    E.axiom("tag/output-injection", "forall(lambda o: out_of_tag(tag_of_out(o)) == o and tag_truthy(tag_of_out(o)), Out)",
            "info tags are Python objects held in a generic container: outputs are injected into the tag sort; a dataclass instance is truthy",
            keys=["tag_of_out", "out_of_tag"])
    E.ops.ref_coercions[("Out", "Tag")] = "tag_of_out"
    E.ops.ref_coercions[("Tag", "Out")] = "out_of_tag"
    add(Contract(f"{M}:generate_all", kind="assumed", params={"rec_input": "RecIn", "node": "Opt[Out]"}, defaults={"node": None}, returns="Seq[Out]",
                 ensures=["result == all_outputs(rec_input)"],
                 note="the enumerator (recursive generator over ete3 trees): a finite sequence of outputs, a function of the input; WHICH outputs it contains is checked by the bounded stand-in only",
                 props=["C01", "C05"]))
    add(Contract(f"{M}:Out.cost", kind="assumed", params={"self": "Out"}, returns="Ext", ensures=["result == out_cost(self)", "out_cost(self) != -inf"], globals=G,
                 note="ReconciliationOutput.cost() seen as a function of the output object (its value against the event model: C06, proved); a cost is never -inf",
                 props=["C01", "C05"]))

    S = "all_outputs(rec_input)"
    HIT = f"exists(lambda i: 0 <= i and i < {{N}} and tag_of_out({S}[i]) == t and out_cost({S}[i]) == {{V}}, Int)"

    def clauses(N, V, INFOS):
        hit = HIT.format(N=N, V=V)
        return [
            ("value-is-a-lower-bound", f"forall(lambda j: implies(0 <= j and j < {N}, not (out_cost({S}[j]) < {V})), Int)"),
            ("value-is-attained-or-inf", f"{V} == inf or exists(lambda i: 0 <= i and i < {N} and out_cost({S}[i]) == {V}, Int)"),
            ("all-exactly-the-cheapest", f"implies(policy == RetentionPolicy.ALL, forall(lambda t: (t in {INFOS}) == {hit}, Tag))"),
            ("any-sound", f"implies(policy == RetentionPolicy.ANY, forall(lambda t: implies(t in {INFOS}, {hit}), Tag))"),
            ("any-nonempty", f"implies(policy == RetentionPolicy.ANY and exists(lambda t: {hit}, Tag), exists(lambda t: t in {INFOS}, Tag))"),
            ("any-at-most-one", f"implies(policy == RetentionPolicy.ANY, forall(lambda t, u: implies((t in {INFOS}) and (u in {INFOS}), t == u), Tag, Tag))"),
            ("none-empty", f"implies(policy == RetentionPolicy.NONE, forall(lambda t: not (t in {INFOS}), Tag))"),
        ]

    add(Contract(
        f"{M}:reconcile_exhaustive", params={"rec_input": "RecIn", "policy": "RetentionPolicy"}, returns="Set[Tag]", ghost={"m": "Ext"},
        requires=[("m-is-the-minimum", f"forall(lambda j: implies(0 <= j and j < len({S}), not (out_cost({S}[j]) < m)), Int) and (m == inf or exists(lambda i: 0 <= i and i < len({S}) and out_cost({S}[i]) == m, Int))")],
        ensures=[(n, c) for n, c in clauses(f"len({S})", "m", "result") if n not in ("value-is-a-lower-bound", "value-is-attained-or-inf")],
        loops={0: LoopSpec(header="for output in generate_all(rec_input)", index="k", length="n", invariants=[
            ("entry-well-formed", "results._merge_policy == MergePolicy.MIN and results._retention_policy == policy and forall(lambda t: implies(t in results._infos, tag_truthy(t)), Tag)"),
            ("wf-none", "implies(policy == RetentionPolicy.NONE, forall(lambda t: not (t in results._infos), Tag))"),
            ("wf-any", "implies(policy == RetentionPolicy.ANY, forall(lambda t, u: implies(t in results._infos and u in results._infos, t == u), Tag, Tag))"),
            ("length", f"n == len({S})"),
        ] + [c for c in clauses("k", "results._value", "results._infos") if c[0] not in ("any-at-most-one", "none-empty")])},
        globals=G, props=["C01", "C05"]))
