"""Contracts for superrec2.compute.unordered_super_reconciliation: gain sets and required-content sets (C03, C04)."""
from pyvc.contracts import Contract, LoopSpec

M = "superrec2.compute.unordered_super_reconciliation"
REQUIRES = ["model_reconciliation"]


def setup(E):
    add = E.registry.add
    # "family f occurs in a leaf below u" (recursive over the binary object tree)
    E.spec("occurs_below", "syn: Map[Node, Seq[Elem]], u: Node, f: Elem", "Bool",
           "(f in syn[u]) if leaf(u) else (occurs_below(syn, left(u), f) or occurs_below(syn, right(u), f))")
    # the node at which a family is gained: abstract, characterised by the gain sets given to _compute_lca_sets
    E.declare_ufun("gain_node", ["Elem"], "Node")
    WF = [
        ("binary-tree", "binary(srec_input.object_tree) and rootof(srec_input.object_tree) == srec_input.object_tree"),
        ("leaf-syntenies", "forall(lambda n: implies(rootof(n) == srec_input.object_tree and leaf(n), n in srec_input.leaf_syntenies), Node)"),
    ]
    add(Contract(
        f"{M}:_compute_lca_sets",
        params={"srec_input": "SuperReconciliationInput", "gain_sets": "Map[Node, Set[Elem]]"}, returns="Map[Node, Set[Elem]]",
        requires=WF + [
            ("gain-sets-total", "forall(lambda n: implies(rootof(n) == srec_input.object_tree, n in gain_sets), Node)"),
            # each family is gained at exactly one node, an ancestor of every leaf that carries it
            ("gain-sets", "forall(lambda n, f: implies(rootof(n) == srec_input.object_tree, (f in gain_sets[n]) == (occurs_below(srec_input.leaf_syntenies, n, f) and n == gain_node(f))), Node, Elem)"),
            ("gain-above-carriers", """forall(lambda c, f: implies(rootof(c) == srec_input.object_tree and leaf(c) and (f in srec_input.leaf_syntenies[c]),
                    anc(gain_node(f), c) and rootof(gain_node(f)) == srec_input.object_tree), Node, Elem)"""),
        ],
        ensures=[
            ("total", "forall(lambda n: implies(rootof(n) == srec_input.object_tree, n in result), Node)"),
            # required content of a node: the families that occur below it and whose gain node is the node itself or above it
            ("required-content", """forall(lambda n, f: implies(rootof(n) == srec_input.object_tree,
                    (f in result[n]) == (occurs_below(srec_input.leaf_syntenies, n, f) and anc(gain_node(f), n))), Node, Elem)"""),
        ],
        locals={"result": "Map[Node, Set[Elem]]"},
        at={"result[object_node] = set().union(": [
            # cuts (tree reasoning): the ancestors of an internal node are exactly the strict ancestors of each of its children
            "assert forall(lambda g: anc(g, object_node) == (anc(g, left(object_node)) and g != left(object_node)), Node)",
            "assert forall(lambda g: anc(g, object_node) == (anc(g, right(object_node)) and g != right(object_node)), Node)",
        ]},
        loops={0: LoopSpec(
            header="for object_node in srec_input.object_tree.traverse('postorder')", index="k", length="n",
            invariants=[
                """forall(lambda m: implies(anc(srec_input.object_tree, m) and post_idx(srec_input.object_tree, m) < k, m in result), Node)""",
                """forall(lambda m, f: implies(anc(srec_input.object_tree, m) and post_idx(srec_input.object_tree, m) < k,
                        (f in result[m]) == (occurs_below(srec_input.leaf_syntenies, m, f) and anc(gain_node(f), m))), Node, Elem)""",
            ])},
        props=["C03", "C04"]))


def _gain_sets(E):
    """_compute_gain_sets: every family that occurs in a leaf is gained at exactly one node, the deepest common ancestor of the leaves
    that carry it (the property's 'gained once, at the LCA of the leaves that carry it'); nothing else is gained anywhere."""
    add = E.registry.add
    TR = "superrec2.utils.trees"
    add(Contract(f"{TR}:LowestCommonAncestor.__init__", kind="assumed", params={"self": "LowestCommonAncestor", "tree": "Node"},
                 ensures=["self.tree == tree"], modifies=["self.*"],
                 note="construction of the Euler-tour structure: part of the assumed LowestCommonAncestor core (C17), validated by its bounded stand-in", props=["C17"]))
    # n is a common ancestor of the members of S and every common ancestor of S is an ancestor of n
    E.spec("deepest_common", "S: Set[Node], n: Node", "Bool", """
           forall(lambda c: implies(c in S, anc(n, c)), Node)
           and forall(lambda m: implies(forall(lambda c: implies(c in S, anc(m, c)), Node), anc(m, n)), Node)""")
    LS, T = "srec_input.leaf_syntenies", "srec_input.object_tree"
    CAR = lambda c, f: f"(({c} in {LS}) and ({f} in {LS}[{c}]))"
    add(Contract(
        f"{M}:_compute_gain_sets", params={"srec_input": "SuperReconciliationInput"}, returns="Map[Node, Set[Elem]]",
        requires=[
            ("tree", f"binary({T}) and rootof({T}) == {T}"),
            ("syntenies-on-tree-nodes", f"forall(lambda c: implies(c in {LS}, rootof(c) == {T}), Node)"),
        ],
        ensures=[
            ("total", f"forall(lambda n: (n in result) == anc({T}, n), Node)"),
            ("gained-at-the-lca-of-the-carriers", f"""forall(lambda n, f: implies((n in result) and (f in result[n]),
                    exists(lambda c: {CAR('c', 'f')}, Node)
                    and forall(lambda c: implies({CAR('c', 'f')}, anc(n, c)), Node)
                    and forall(lambda m: implies(forall(lambda c: implies({CAR('c', 'f')}, anc(m, c)), Node), anc(m, n)), Node)), Node, Elem)"""),
            ("every-family-gained", f"forall(lambda f: implies(exists(lambda c: {CAR('c', 'f')}, Node), exists(lambda n: anc({T}, n) and (f in result[n]), Node)), Elem)"),
        ],
        locals={"leaves_by_family": "DefaultMap[Elem, Set[Node]]", "result": "Map[Node, Set[Elem]]"},
        loops={
            0: LoopSpec(header="for (leaf, synteny) in srec_input.leaf_syntenies.items()", index="k", length="n", seq="P",
                        invariants=[
                            ("carriers-so-far", f"forall(lambda f, c: (c in leaves_by_family[f]) == ((c in {LS}) and P_idx(c) < k and (f in {LS}[c])), Elem, Node)"),
                            ("keys", "forall(lambda f: (f in leaves_by_family) == exists(lambda c: c in leaves_by_family[f], Node), Elem)"),
                        ]),
            1: LoopSpec(header="for family in synteny", index="j", length="nj",
                        invariants=[
                            ("current", f"(leaf in {LS}) and synteny == {LS}[leaf] and P_idx(leaf) == k and P_key(k) == leaf and 0 <= k"),
                            ("carriers-so-far", f"""forall(lambda f, c: (c in leaves_by_family[f]) == (((c in {LS}) and P_idx(c) < k and (f in {LS}[c]))
                                    or (c == leaf and exists(lambda i: 0 <= i and i < j and synteny[i] == f, Int))), Elem, Node)"""),
                            ("keys", "forall(lambda f: (f in leaves_by_family) == exists(lambda c: c in leaves_by_family[f], Node), Elem)"),
                        ]),
            2: LoopSpec(header="for (family, leaves) in leaves_by_family.items()", index="q", length="nq", seq="Q",
                        invariants=[
                            ("total", f"forall(lambda n: (n in result) == anc({T}, n), Node)"),
                            ("sound", "forall(lambda n, f: implies((n in result) and (f in result[n]), (f in leaves_by_family) and Q_idx(f) < q and deepest_common(leaves_by_family[f], n)), Node, Elem)"),
                            ("complete", f"forall(lambda f: implies((f in leaves_by_family) and Q_idx(f) < q, exists(lambda n: anc({T}, n) and (f in result[n]), Node)), Elem)"),
                        ]),
        },
        props=["C03", "C04"]))


_setup_lca = setup


def setup(E):  # noqa: F811
    _setup_lca(E)
    _gain_sets(E)
