"""Contracts for superrec2.compute.unordered_super_reconciliation: gain sets and required-content sets (C03, C04)."""
from pyvc.contracts import Contract, LoopSpec

M = "superrec2.compute.unordered_super_reconciliation"
REQUIRES = ["model_reconciliation"]


def setup(E):
    add = E.registry.add
    # "family f occurs in a leaf below u" (recursive over the binary object tree)
    E.spec("occurs_below", "syn: Map[Node, Seq[Elem]], u: Node, f: Elem", "Bool",
           "(f in syn[u]) if leaf(u) else (occurs_below(syn, left(u), f) or occurs_below(syn, right(u), f))")
    # the node at which a family is gained: abstract, characterised by the gain sets given to _compute_lca_sets
    E.declare_ufun("gain_node", ["Elem"], "Node")
    WF = [
        ("binary-tree", "binary(srec_input.object_tree) and rootof(srec_input.object_tree) == srec_input.object_tree"),
        ("leaf-syntenies", "forall(lambda n: implies(rootof(n) == srec_input.object_tree and leaf(n), n in srec_input.leaf_syntenies), Node)"),
    ]
    add(Contract(
        f"{M}:_compute_lca_sets",
        params={"srec_input": "SuperReconciliationInput", "gain_sets": "Map[Node, Set[Elem]]"}, returns="Map[Node, Set[Elem]]",
        requires=WF + [
            ("gain-sets-total", "forall(lambda n: implies(rootof(n) == srec_input.object_tree, n in gain_sets), Node)"),
            # each family is gained at exactly one node, an ancestor of every leaf that carries it
            ("gain-sets", "forall(lambda n, f: implies(rootof(n) == srec_input.object_tree, (f in gain_sets[n]) == (occurs_below(srec_input.leaf_syntenies, n, f) and n == gain_node(f))), Node, Elem)"),
            ("gain-above-carriers", """forall(lambda c, f: implies(rootof(c) == srec_input.object_tree and leaf(c) and (f in srec_input.leaf_syntenies[c]),
                    anc(gain_node(f), c) and rootof(gain_node(f)) == srec_input.object_tree), Node, Elem)"""),
        ],
        ensures=[
            ("total", "forall(lambda n: implies(rootof(n) == srec_input.object_tree, n in result), Node)"),
            # required content of a node: the families that occur below it and whose gain node is the node itself or above it
            ("required-content", """forall(lambda n, f: implies(rootof(n) == srec_input.object_tree,
                    (f in result[n]) == (occurs_below(srec_input.leaf_syntenies, n, f) and anc(gain_node(f), n))), Node, Elem)"""),
        ],
        locals={"result": "Map[Node, Set[Elem]]"},
        at={"result[object_node] = set().union(": [
            # cuts (tree reasoning): the ancestors of an internal node are exactly the strict ancestors of each of its children
            "assert forall(lambda g: anc(g, object_node) == (anc(g, left(object_node)) and g != left(object_node)), Node)",
            "assert forall(lambda g: anc(g, object_node) == (anc(g, right(object_node)) and g != right(object_node)), Node)",
        ]},
        loops={0: LoopSpec(
            header="for object_node in srec_input.object_tree.traverse('postorder')", index="k", length="n",
            invariants=[
                """forall(lambda m: implies(anc(srec_input.object_tree, m) and post_idx(srec_input.object_tree, m) < k, m in result), Node)""",
                """forall(lambda m, f: implies(anc(srec_input.object_tree, m) and post_idx(srec_input.object_tree, m) < k,
                        (f in result[m]) == (occurs_below(srec_input.leaf_syntenies, m, f) and anc(gain_node(f), m))), Node, Elem)""",
            ])},
        props=["C03", "C04"]))
