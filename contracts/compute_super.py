"""Contracts / bounded stand-ins for superrec2.compute.super_reconciliation and .unordered_super_reconciliation (C02, C03, C04, C05)."""

REQUIRES = ["compute_reconciliation"]


def setup(E):
    from standin import srec

    E._c02 = srec.standin("ordered-solvers:optimum-vs-brute-force", ("ordered",), ("optimal",),
                          "bounded: object trees <= 4 (5) leaves, species trees <= 3 (4) leaves, <= 3 (4) families; coherent cost region")
    E._c03 = srec.standin("unordered-solvers:optimum-vs-brute-force", ("unordered",), ("optimal",),
                          "bounded: object trees <= 4 (5) leaves, species trees <= 3 (4) leaves, <= 4 families, every labelling (not only the canonical ones); coherent cost region")
    E._c04 = srec.standin("labelled-solvers:validity-of-returned-solutions", ("ordered", "unordered"), ("valid",),
                          "bounded: same inputs, every cost vector (segmental-loss cost 0 and incoherent vectors included)")
    E._c05 = srec.standin("labelled-solvers:all-any-vs-optimal-set", ("ordered", "unordered"), ("optimal", "all-any"),
                          "bounded: same inputs; complete optimal set from the oracle (unordered: canonical labellings)")

    E._c02_wit = srec.witness_standin("ordered-solvers:F-COHERENCE-witness", ["F-COHERENCE witness 3"])
    E._c03_wit = srec.witness_standin("unordered-solvers:F-COHERENCE-witness", ["F-COHERENCE witness 4"])
    from standin import steps

    E._st_thl = steps.standin("thl-step-functions:recurrence-contract-at-runtime", "thl",
                              "bounded: species trees <= 4 leaves, 1500 (20000) random tables; executable Bellman contract of _compute_thl_try_speciation / _compute_thl_try_duplication_transfer")
    E._st_spfs = steps.standin("spfs-entry:recurrence-contract-at-runtime", "spfs",
                               "bounded: species trees <= 4 leaves, masks <= 4 bits, 1500 (20000) random tables; executable recurrence contract of _compute_spfs_entry")
    E._st_uspfs = steps.standin("uspfs-entry:recurrence-contract-at-runtime", "uspfs",
                                "bounded: species trees <= 4 leaves, <= 3 families, 1500 (20000) random tables; executable recurrence contract of _compute_uspfs_entry")

    from standin import c08

    E._c08_enum = c08.standin("binarize:each-binary-refinement-exactly-once", "enumerator",
                              "exhaustive over all tree shapes with arbitrary arities up to 5 (6 thorough) leaves, with and without colours / unnamed nodes",
                              "utils.trees.binarize on every rooted ordered tree shape with internal arity >= 2 up to the bound: all results binary, original clades / names / colours kept, pairwise distinct, "
                              "count = product of (2k-3)!!, and the set of results equals an independent enumeration of all binary trees displaying the original clades")
    E._c08_input = c08.standin("ReconciliationInput.binarize:refined-inputs", "input",
                               "bounded: 60 (600) random inputs, object trees <= 5 leaves, species trees <= 4 leaves, arities <= 4",
                               "ReconciliationInput.binarize + label_internal on random multifurcating inputs: one input per pair of refinements, binary, clades / names / colours / leaf assignment / leaf syntenies / costs kept, "
                               "generated labels unique and never taking an original node's name (inputs whose names look like generated labels included)")
    E._c08_solver = c08.standin("extended-solvers:optimum-over-all-refinements", "solver",
                                "bounded: 40 (400) random multifurcating inputs, <= 4 object leaves, <= 4 species leaves, <= 45 refinement pairs",
                                "sreconcile_extended_spfs / usreconcile_extended_uspfs on multifurcating inputs: returned cost = minimum over an independent enumeration of all binary refinements of both trees of the "
                                "binary-input oracle optimum; every returned solution refers to binary trees keeping the original clades, names, colours and leaf data")
    E._st_sets = steps.standin("gain-sets-required-sets-precedence-graph:contracts-at-runtime", "sets",
                               "bounded: 400 (6000) random inputs of the C02/C03 scopes; executable contracts of _compute_gain_sets, _compute_lca_sets, _make_prec_graph")
