"""Contracts / bounded stand-ins for superrec2.compute.super_reconciliation and .unordered_super_reconciliation (C02, C03, C04, C05)."""

REQUIRES = ["compute_reconciliation"]


def setup(E):
    from standin import srec

    E._c02 = srec.standin("ordered-solvers:optimum-vs-brute-force", ("ordered",), ("optimal",),
                          "bounded: object trees <= 4 (5) leaves, species trees <= 3 (4) leaves, <= 3 (4) families; coherent cost region")
    E._c03 = srec.standin("unordered-solvers:optimum-vs-brute-force", ("unordered",), ("optimal",),
                          "bounded: object trees <= 4 (5) leaves, species trees <= 3 (4) leaves, <= 4 families, every labelling (not only the canonical ones); coherent cost region")
    E._c04 = srec.standin("labelled-solvers:validity-of-returned-solutions", ("ordered", "unordered"), ("valid",),
                          "bounded: same inputs, every cost vector (segmental-loss cost 0 and incoherent vectors included)")
    E._c05 = srec.standin("labelled-solvers:all-any-vs-optimal-set", ("ordered", "unordered"), ("optimal", "all-any"),
                          "bounded: same inputs; complete optimal set from the oracle (unordered: canonical labellings)")

    from standin import steps

    E._st_thl = steps.standin("thl-step-functions:recurrence-contract-at-runtime", "thl",
                              "bounded: species trees <= 4 leaves, 1500 (20000) random tables; executable Bellman contract of _compute_thl_try_speciation / _compute_thl_try_duplication_transfer")
    E._st_spfs = steps.standin("spfs-entry:recurrence-contract-at-runtime", "spfs",
                               "bounded: species trees <= 4 leaves, masks <= 4 bits, 1500 (20000) random tables; executable recurrence contract of _compute_spfs_entry")
    E._st_uspfs = steps.standin("uspfs-entry:recurrence-contract-at-runtime", "uspfs",
                                "bounded: species trees <= 4 leaves, <= 3 families, 1500 (20000) random tables; executable recurrence contract of _compute_uspfs_entry")
