"""Contracts for superrec2.utils.subsequences (property C18)."""
from pyvc.contracts import Contract, LoopSpec, Clause

M = "superrec2.utils.subsequences"


def setup(E):
    E.declare_ref("Elem")
    # ---- spec functions (the formal reading of the property statement)
    # greedy left-to-right embedding of child[ci:] into parent[pi:], bit i <-> parent[i]
    E.spec(
        "mask_from", "c: Seq[Elem], ci: Int, p: Seq[Elem], pi: Int", "Int",
        """0 if (pi >= len(p) or ci >= len(c) or pi < 0 or ci < 0) else
           (pow2(pi) + mask_from(c, ci + 1, p, pi + 1) if c[ci] == p[pi] else mask_from(c, ci, p, pi + 1))""",
    )
    # elements of parent[i:] selected by the bits of m, least significant bit first
    E.spec(
        "sel", "m: Int, p: Seq[Elem], i: Int", "Seq[Elem]",
        "[] if m <= 0 else ([p[i]] if m % 2 == 1 else []) + sel(m // 2, p, i + 1)",
    )
    # every bit of c is a bit of p
    E.spec("submask", "c: Int, p: Int", "Bool",
           "True if c <= 0 else (c % 2 <= p % 2 and submask(c // 2, p // 2))")
    # number of maximal runs of parent positions missing from the child; pm: a run is already open
    E.spec(
        "runs", "c: Int, p: Int, pm: Bool", "Int",
        """0 if p <= 0 else (runs(c // 2, p // 2, pm) if p % 2 == 0 else
           (runs(c // 2, p // 2, False) if c % 2 == 1 else (0 if pm else 1) + runs(c // 2, p // 2, True)))""",
    )
    # is the most significant parent position missing from the child (cur: value when parent is empty)
    E.spec(
        "lastmiss", "c: Int, p: Int, cur: Bool", "Bool",
        "cur if p <= 0 else lastmiss(c // 2, p // 2, (c % 2 == 0) if p % 2 == 1 else cur)",
    )
    # is the least significant parent position missing from the child
    E.spec(
        "firstmiss", "c: Int, p: Int", "Bool",
        "False if p <= 0 else ((c % 2 == 0) if p % 2 == 1 else firstmiss(c // 2, p // 2))",
    )

    # complete behaviour of the segment distance (the property is silent for the empty child; the evaluator is not)
    E.spec(
        "segd", "c: Int, p: Int, e: Bool", "Int",
        """-1 if not submask(c, p) else
           ((runs(c, p, False) - (0 if e else ((1 if firstmiss(c, p) else 0) + (1 if lastmiss(c, p, False) else 0)))) if c > 0
            else (runs(c, p, False) if e else -1))""",
    )

    add = E.registry.add
    add(Contract(
        f"{M}:subseq_complete",
        params={"sequence": "Seq[Elem]"}, returns="Int",
        ensures=["result == pow2(len(sequence)) - 1", "result >= 0"],
        canary="result == pow2(len(sequence))",
        props=["C18"],
    ))
    add(Contract(
        f"{M}:mask_from_subseq",
        params={"child": "Seq[Elem]", "parent": "Seq[Elem]"}, returns="Int",
        ensures=["result == mask_from(child, 0, parent, 0)", "result >= 0"],
        loops={0: LoopSpec(
            header="for (parent_i, parent_v) in enumerate(parent)", index="k", length="n",
            invariants=[
                "0 <= child_i and child_i <= len(child)",
                "0 <= mask and mask < pow2(k)",
                "mask + mask_from(child, child_i, parent, k) == mask_from(child, 0, parent, 0)",
            ])},
        canary="result == mask_from(child, 0, parent, 0) + 1",
        props=["C18"],
    ))
    add(Contract(
        f"{M}:subseq_from_mask",
        params={"child": "Int", "parent": "Seq[Elem]"}, returns="Seq[Elem]",
        requires=["0 <= child", "child < pow2(len(parent))"],
        ensures=["result == sel(child, parent, 0)"],
        locals={"result": "Seq[Elem]"},
        loops={0: LoopSpec(
            header="while child", index="k", decreases="child",
            invariants=[
                "0 <= child",
                "0 <= parent_i and parent_i <= len(parent)",
                "child < pow2(len(parent) - parent_i)",
                "result + sel(child, parent, parent_i) == sel(old(child), parent, 0)",
            ])},
        canary="len(result) == 0",
        props=["C18"],
    ))
    add(Contract(
        f"{M}:subseq_segment_dist",
        params={"child": "Int", "parent": "Int", "edges": "Bool"}, returns="Int",
        requires=["child >= 0", "parent >= 0"],
        ensures=[
            ("not-contained", "implies(not submask(child, parent), result == -1)"),
            ("run-count", """implies(submask(child, parent) and child > 0,
                 result == runs(child, parent, False)
                           - (0 if edges else ((1 if firstmiss(child, parent) else 0) + (1 if lastmiss(child, parent, False) else 0))))"""),
            ("at-least-minus-one", "result >= -1"),
            ("complete-behaviour", "result == segd(child, parent, edges)"),
        ],
        hints=["lemma_submask_bl(child, parent)", "lemma_runs_open(child, parent)", "lemma_lastmiss_cur(child, parent)",
               "lemma_runs_empty_child(parent)", "lemma_lastmiss_empty_child(parent)", "lemma_runs_nonneg(child, parent, False)", "lemma_runs_nonneg(child, parent, True)"],
        loops={0: LoopSpec(
            header="for _ in range(parent.bit_length())", index="k", length="n",
            before=["lemma_pow2_mono(bl(child), bl(parent))"],
            invariants=[
                "child >= 0 and parent >= 0",
                "parent < pow2(n - k)",
                "child < pow2(n - k)",
                "submask(old(child), old(parent)) == submask(child, parent)",
                "dist + runs(child, parent, in_segm) == runs(old(child), old(parent), not edges)",
                "lastmiss(child, parent, in_segm) == lastmiss(old(child), old(parent), not edges)",
                "dist >= 0",
            ])},
        canary="result == runs(child, parent, False)",
        props=["C18"],
    ))

    # ---- L2 lemma functions (proved by the same engine; recursion = induction hypothesis)
    add(Contract(
        "lemma_pow2_mono", kind="lemma", params={"a": "Int", "b": "Int"},
        requires=["a <= b"], ensures=["pow2(a) <= pow2(b)"],
        body="""
        if a < b:
            lemma_pow2_mono(a, b - 1)
        """, decreases="b - a", props=["C18", "C17"]))
    add(Contract(
        "lemma_submask_le", kind="lemma", params={"c": "Int", "p": "Int"},
        requires=["c >= 0", "p >= 0", "submask(c, p)"], ensures=["c <= p"],
        body="""
        if c > 0:
            lemma_submask_le(c // 2, p // 2)
        """, decreases="c", props=["C18"]))
    add(Contract(
        "lemma_bl_mono", kind="lemma", params={"c": "Int", "p": "Int"},
        requires=["0 <= c", "c <= p"], ensures=["bl(c) <= bl(p)"],
        body="""
        if c > 0 and bl(c) > bl(p):
            lemma_pow2_mono(bl(p), bl(c) - 1)
        """, props=["C18"]))
    add(Contract(
        "lemma_submask_bl", kind="lemma", params={"c": "Int", "p": "Int"},
        requires=["c >= 0", "p >= 0"], ensures=["implies(submask(c, p), bl(c) <= bl(p))"],
        body="""
        if submask(c, p):
            lemma_submask_le(c, p)
            lemma_bl_mono(c, p)
        """, props=["C18"]))
    add(Contract(
        "lemma_runs_empty_child", kind="lemma", params={"p": "Int"},
        requires=["p >= 0"], ensures=["runs(0, p, True) == 0"],
        body="""
        if p > 0:
            lemma_runs_empty_child(p // 2)
        """, decreases="p", props=["C18"]))
    add(Contract(
        "lemma_lastmiss_empty_child", kind="lemma", params={"p": "Int"},
        requires=["p >= 0"], ensures=["lastmiss(0, p, True)"],
        body="""
        if p > 0:
            lemma_lastmiss_empty_child(p // 2)
        """, decreases="p", props=["C18"]))
    add(Contract(
        "lemma_runs_nonneg", kind="lemma", params={"c": "Int", "p": "Int", "pm": "Bool"},
        requires=["c >= 0", "p >= 0"], ensures=["runs(c, p, pm) >= 0"],
        body="""
        if p > 0:
            lemma_runs_nonneg(c // 2, p // 2, pm)
            lemma_runs_nonneg(c // 2, p // 2, False)
            lemma_runs_nonneg(c // 2, p // 2, True)
        """, decreases="p", props=["C18"]))
    # a run already open at the start hides exactly the run that touches the low end
    add(Contract(
        "lemma_runs_open", kind="lemma", params={"c": "Int", "p": "Int"},
        requires=["c >= 0", "p >= 0"],
        ensures=["runs(c, p, True) == runs(c, p, False) - (1 if firstmiss(c, p) else 0)"],
        body="""
        if p > 0 and p % 2 == 0:
            lemma_runs_open(c // 2, p // 2)
        """, decreases="p", props=["C18"]))
    # with a non-empty contained child the initial value of the 'last missing' flag is irrelevant
    add(Contract(
        "lemma_lastmiss_cur", kind="lemma", params={"c": "Int", "p": "Int"},
        requires=["c >= 0", "p >= 0"],
        ensures=["implies(submask(c, p) and c > 0, lastmiss(c, p, True) == lastmiss(c, p, False))"],
        body="""
        if submask(c, p) and c > 0:
            lemma_submask_le(c, p)
            if p % 2 == 0:
                lemma_lastmiss_cur(c // 2, p // 2)
        """, decreases="p", props=["C18"]))


# ---------------------------------------------------------------------------- bounded scopes
def _scopes(E):
    import itertools
    from pyvc.driver import Scope

    def bits(tier):
        return {"quick": 6, "concretise": 6, "thorough": 9}.get(tier, 6)

    def gen_complete(tier, rng):
        for n in range(0, bits(tier) + 3):
            yield {"sequence": [f"e{i}" for i in range(n)]}

    def gen_mask_from(tier, rng):
        n = 4 if tier != "thorough" else 6
        for ln in range(0, n + 1):
            parent = [f"e{i}" for i in range(ln)]
            for m in range(2 ** ln):
                yield {"child": [parent[i] for i in range(ln) if m >> i & 1], "parent": parent}
            # children that are not subsequences, repeated elements in the parent
            for child in itertools.product(parent + ["zz"], repeat=min(ln, 2)):
                yield {"child": list(child), "parent": parent}
            if ln >= 2:
                yield {"child": [parent[0]], "parent": parent[:1] + parent[:1] + parent[1:]}
        for _ in range(40 if tier != "thorough" else 400):  # wide parents
            ln = rng.choice([31, 32, 33, 63, 64, 65, 70, 128, 130])
            parent = [f"e{i}" for i in range(ln)]
            m = rng.getrandbits(ln) | (1 << (ln - 1))
            yield {"child": [parent[i] for i in range(ln) if m >> i & 1], "parent": parent}

    def gen_from_mask(tier, rng):
        n = 5 if tier != "thorough" else 8
        for ln in range(0, n + 1):
            parent = [f"e{i}" for i in range(ln)]
            for m in range(2 ** ln + 2):
                yield {"child": m, "parent": parent}
        for _ in range(60 if tier != "thorough" else 600):  # wide masks (word-size boundaries)
            ln = rng.choice([31, 32, 33, 63, 64, 65, 70, 127, 128, 130])
            parent = [f"e{i}" for i in range(ln)]
            m = rng.getrandbits(ln) | (1 << rng.randrange(max(0, ln - 6), ln))
            yield {"child": m, "parent": parent}

    def gen_seg(tier, rng):
        b = bits(tier)
        for child in range(2 ** b):
            for parent in range(2 ** b):
                for edges in (True, False):
                    yield {"child": child, "parent": parent, "edges": edges}
        for _ in range(200):
            w = rng.randrange(10, 40)
            p = rng.getrandbits(w)
            c = p & rng.getrandbits(w) if rng.random() < 0.8 else rng.getrandbits(w)
            yield {"child": c, "parent": p, "edges": rng.random() < 0.5}

    S = E.registry.scopes
    S[f"{M}:subseq_complete"] = Scope(gen_complete, describe="sequences of length 0..8 (11 thorough)")
    S[f"{M}:mask_from_subseq"] = Scope(gen_mask_from, describe="parents of <= 4 (6) distinct elements, all subsequences, short non-subsequences, one repeated parent")
    S[f"{M}:subseq_from_mask"] = Scope(gen_from_mask, describe="parents of <= 5 (8) elements, every mask up to 2**len + 1 (the out-of-range ones are skipped by the precondition)")
    S[f"{M}:subseq_segment_dist"] = Scope(gen_seg, describe="all (child, parent) < 2**6 (2**9 thorough) x both end modes, plus 200 random wide masks",
                                          nontrivial=lambda r: r["child"] > 0)


_setup_contracts = setup


def setup(E):  # noqa: F811
    _setup_contracts(E)
    _scopes(E)
