"""Contracts for superrec2.compute.reconciliation (C07: reconcile_lca; C01/C05/C04: THL)."""
from pyvc.contracts import Contract, LoopSpec

M = "superrec2.compute.reconciliation"
REQUIRES = ["model_reconciliation", "dynamic_programming"]


def setup(E):
    add = E.registry.add
    G = {"inf": E.globals["inf"]}
    # LCA of the species of the leaves below n (recursive over the binary object tree)
    E.spec("lca_map", "lm: Map[Node, Node], n: Node", "Node",
           "lm[n] if leaf(n) else lca2(lca_map(lm, left(n)), lca_map(lm, right(n)))")
    WF = [(n, t.replace("{I}", "rec_input")) for n, t in E._wf_in]
    add(Contract(
        f"{M}:reconcile_lca", params={"rec_input": "ReconciliationInput"}, returns="ReconciliationOutput",
        requires=WF,
        ensures=[
            ("same-input", "result.input == rec_input"),
            ("total-lca-mapping", """forall(lambda n: implies(rootof(n) == rec_input.object_tree,
                  (n in result.object_species) and result.object_species[n] == lca_map(rec_input.leaf_object_species, n)
                  and rootof(result.object_species[n]) == rec_input.species_lca.tree), Node)"""),
            ("valid-no-transfer", """forall(lambda n: implies(rootof(n) == rec_input.object_tree,
                  node_event_spec(result.object_species, rec_input.leaf_object_species, n) == (Event.LEAF if leaf(n) else Event.SPECIATION)
                  or node_event_spec(result.object_species, rec_input.leaf_object_species, n) == (Event.LEAF if leaf(n) else Event.DUPLICATION)), Node)"""),
        ],
        locals={"rec": "Map[Node, Node]"}, globals=G,
        loops={0: LoopSpec(
            header="for node in rec_input.object_tree.traverse('postorder')", index="k", length="n",
            invariants=["""forall(lambda m: implies(anc(rec_input.object_tree, m) and post_idx(rec_input.object_tree, m) < k,
                  (m in rec) and rec[m] == lca_map(rec_input.leaf_object_species, m) and rootof(rec[m]) == rec_input.species_lca.tree), Node)"""])},
        props=["C07"]))


def _c07_extras(E):
    import itertools
    from pyvc.contracts import Contract
    from pyvc.driver import Scope, Standin
    from pyvc import native
    from standin import recon

    add = E.registry.add
    SP = "forall(lambda m: implies(leaf(m) and anc(n, m), rootof(lm[m]) == sp), Node)"
    add(Contract(
        "lemma_lcamap_common", kind="lemma", params={"lm": "Map[Node, Node]", "sp": "Node", "n": "Node", "l": "Node"},
        requires=["binary(rootof(n))", "leaf(l)", "anc(n, l)", SP],
        ensures=["anc(lca_map(lm, n), lm[l])", "rootof(lca_map(lm, n)) == sp"],
        body="""
        if not leaf(n):
            lemma_lcamap_root(lm, sp, left(n))
            lemma_lcamap_root(lm, sp, right(n))
            if anc(left(n), l):
                lemma_lcamap_common(lm, sp, left(n), l)
            else:
                lemma_lcamap_common(lm, sp, right(n), l)
        """, props=["C07"]))
    add(Contract(
        "lemma_lcamap_root", kind="lemma", params={"lm": "Map[Node, Node]", "sp": "Node", "n": "Node"},
        requires=["binary(rootof(n))", SP],
        ensures=["rootof(lca_map(lm, n)) == sp"],
        body="""
        if not leaf(n):
            lemma_lcamap_root(lm, sp, left(n))
            lemma_lcamap_root(lm, sp, right(n))
        """, props=["C07"]))
    add(Contract(
        "lemma_lcamap_deepest", kind="lemma", params={"lm": "Map[Node, Node]", "sp": "Node", "n": "Node", "c": "Node"},
        requires=["binary(rootof(n))", SP, "forall(lambda m: implies(leaf(m) and anc(n, m), anc(c, lm[m])), Node)"],
        ensures=["anc(c, lca_map(lm, n))"],
        body="""
        if not leaf(n):
            lemma_lcamap_deepest(lm, sp, left(n), c)
            lemma_lcamap_deepest(lm, sp, right(n), c)
        """, props=["C07"]))

    def gen(tier, rng):
        osz = (1, 2, 3, 4) if tier != "thorough" else (1, 2, 3, 4, 5)
        ssz = (1, 2, 3) if tier != "thorough" else (1, 2, 3, 4, 5)
        for on in osz:
            for osh in recon.binary_shapes(on):
                for sn in ssz:
                    for ssh in recon.binary_shapes(sn):
                        ns = 2 * sn - 1
                        lms = list(itertools.product(range(ns), repeat=on))
                        rng.shuffle(lms)
                        for j, lm in enumerate(lms[: (3 if tier != "thorough" else 10)]):
                            r = {"obj": osh, "sp": ssh, "leafmap": list(lm), "costs": [0, rng.randrange(0, 4), "inf", rng.randrange(0, 4), 1]}
                            yield r
                            if sn >= 2 and j == 0:  # species trees whose internal nodes are unnamed / share names
                                yield dict(r, sp_names="blank-internal")
                                yield dict(r, sp_names="dup")

    def build(recipe, src_root):
        mod = native.import_real(M, src_root)
        inp, onodes, snodes = recon.make_input(src_root, recipe)
        u = native.Universe()
        u.domains["Node"] = onodes + snodes
        u.domains["Int"] = [0, 1]
        return mod.reconcile_lca, {"rec_input": inp}, u

    E.registry.scopes[f"{M}:reconcile_lca"] = Scope(
        gen, build, describe="binary object trees with 1-4 (5) leaves x species trees with 1-3 (5) leaves, 3 (10) sampled leaf assignments each (leaves may sit on internal species: skipped by the precondition only if outside the tree)")

    # clause 2 of C07 (optimal, unique when loss > 0): a theorem about the duplication-loss model; bounded evidence only
    def optimal(recipe, src_root):
        mod = native.import_real(M, src_root)
        inp, onodes, snodes = recon.make_input(src_root, recipe)
        out = mod.reconcile_lca(inp)
        costs = tuple(recon.num(c) for c in recipe["costs"])
        mine = recon.recount(inp.object_tree, out.object_species, inp.leaf_object_species, costs)
        if mine is None:
            return "LCA reconciliation is invalid under the event model"
        best, argbest = None, []
        for rec in recon.all_mappings(onodes, snodes, inp.leaf_object_species):
            c = recon.recount(inp.object_tree, rec, inp.leaf_object_species, costs)
            if c is None or c == recon.num("inf"):
                continue
            if best is None or c < best:
                best, argbest = c, [rec]
            elif c == best:
                argbest.append(rec)
        if mine != best:
            return f"LCA reconciliation costs {mine}, the minimum over all transfer-free reconciliations is {best}"
        if costs[3] > 0 and len(argbest) != 1:
            return f"{len(argbest)} minimum-cost reconciliations although the loss cost is positive"
        return None

    def run(tier, rng, src_root):
        evals = 0
        seen = set()
        viol = []
        samples = []
        for r in gen(tier, rng):
            if any(i != () for i in []):
                pass
            # leaves must be mapped to species leaves for the classical theorem
            sleaf = [i for i, sh in enumerate(_nodes(r["sp"])) if not sh]
            r = dict(r, leafmap=[sleaf[x % len(sleaf)] for x in r["leafmap"]])
            evals += 1
            seen.add(repr(r))
            if len(samples) < 2:
                samples.append(r)
            w = optimal(r, src_root)
            if w:
                viol.append((w, r))
                break
        return dict(evaluations=evals, distinct_nontrivial=len(seen), violations=viol, samples=samples,
                    rule="reconcile_lca compared with brute force over all species mappings (transfer cost infinite, duplication and loss costs in 0..3): minimum cost, unique when the loss cost is positive")

    def _nodes(sh):
        yield sh
        for c in sh:
            yield from _nodes(c)

    sd = Standin("reconcile_lca:optimal-and-unique-vs-brute-force", run, describe="bounded: object trees <= 4 (5) leaves, species trees <= 3 (5) leaves")
    sd.replay = optimal
    E._c07_opt = sd


_setup_c07 = setup


def setup(E):  # noqa: F811
    _setup_c07(E)
    _c07_extras(E)
    from standin import c01

    # bounded stand-ins for the plain-reconciliation solvers (C01 / C05 / C04): thl, exhaustive, generate_all vs brute force
    E._c01_all = c01.standin("reconciliation:thl-exh-vs-brute-force")
    E._c05_wit = c01.witness_standin("reconciliation:F-COHERENCE-witnesses", ids=["F-COHERENCE witness 1"])
    E._c01_wit = c01.witness_standin("reconciliation:F-COHERENCE-cost-witness", ids=["F-COHERENCE witness 2"])
