"""Contracts for superrec2.utils.text (C15: wrapped labels)."""
from pyvc.contracts import Contract, LoopSpec
from pyvc.calls import Contract_

M = "superrec2.utils.text"
REQUIRES = []


def setup(E):
    add = E.registry.add
    # textwrap.wrap(text, width, break_long_words=False): the library function, an uninterpreted function of (text, width).
    # Its documented behaviour (words kept in order, a line exceeds the width only if it is a single word, greedy filling) is what
    # turns the contract of balanced_wrap into the clauses of the property; it is ASSUMED, and exercised by the bounded stand-in.
    E.declare_ufun("wrap_spec", ["Str", "Int"], "Seq[Str]")
    E.declare_ufun("str_join", ["Str", "Seq[Str]"], "Str")
    c = add(Contract("textwrap:wrap", kind="assumed", params={"text": "Str", "width": "Int", "break_long_words": "Bool"}, returns="Seq[Str]", defaults={"break_long_words": True},
                     requires=["width >= 1", "not break_long_words"], ensures=["result == wrap_spec(text, width)"],
                     note="textwrap.wrap with break_long_words=False is a function of (text, width); for width < 1 it raises ValueError", props=["C15"]))
    E.globals["textwrap"] = {"__module__": "textwrap", "wrap": Contract_(c)}
    add(Contract(f"{M}:_wrap_badness", kind="assumed", params={"lines": "Seq[Str]"}, returns="Int", ensures=[],
                 note="balance measure: only decides WHICH admissible wrapping is returned, no clause of the property depends on its value", props=["C15"]))
    W = "exists(lambda w: {LO} <= w and w <= old(width) and {RES} == wrap_spec(text, w) and len(wrap_spec(text, w)) == len(wrap_spec(text, old(width))), Int)"
    add(Contract(
        f"{M}:balanced_wrap", params={"text": "Str", "width": "Int"}, returns="Str",
        requires=["width >= 1"],
        ensures=[
            ("empty", "implies(text == '', result == '')"),
            # the result is a greedy wrapping at some width not larger than the requested one, with the line count of the requested width
            ("some-narrower-wrapping", """implies(text != '', exists(lambda w: 1 <= w and w <= width and result == str_join('\\n', wrap_spec(text, w))
                   and len(wrap_spec(text, w)) == len(wrap_spec(text, width)), Int))"""),
        ],
        locals={"best_result": "Seq[Str]", "next_result": "Seq[Str]"},
        loops={0: LoopSpec(
            header="while width > 1", decreases="width",
            invariants=[
                "1 <= width and width <= old(width)",
                "line_count == len(wrap_spec(text, old(width)))",
                W.format(LO="width", RES="best_result"),
            ])},
        canary="result == ''",
        props=["C15"]))


def _format_synteny(E):
    add = E.registry.add
    MS = "superrec2.model.synteny"
    # ordered syntenies (sequences of family names): the label is the families in order, comma separated, then wrapped
    add(Contract(
        f"{MS}:format_synteny", params={"synteny": "Seq[Str]", "width": "Opt[Int]"}, returns="Str", defaults={"width": None},
        requires=["implies(width is not None, the(width) >= 1)"],
        ensures=[
            ("unwrapped", "implies(width is None, result == str_join(', ', synteny))"),
            ("wrapped", """implies(width is not None and str_join(', ', synteny) != '', exists(lambda w: 1 <= w and w <= the(width)
                   and result == str_join('\\n', wrap_spec(str_join(', ', synteny), w))
                   and len(wrap_spec(str_join(', ', synteny), w)) == len(wrap_spec(str_join(', ', synteny), the(width))), Int))"""),
            ("wrapped-empty", "implies(width is not None and str_join(', ', synteny) == '', result == '')"),
        ],
        props=["C15"]))


_setup_wrap = setup


def setup(E):  # noqa: F811
    _setup_wrap(E)
    _format_synteny(E)
