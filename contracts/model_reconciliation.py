"""Contracts for superrec2.model.reconciliation: the cost evaluator (property C06; consumed by C01-C05, C07)."""
from pyvc.contracts import Contract, LoopSpec

M = "superrec2.model.reconciliation"
REQUIRES = ["subsequences", "trees"]

EVENTS = ["LEAF", "INVALID", "SPECIATION", "DUPLICATION", "HORIZONTAL_TRANSFER", "FULL_LOSS", "SEGMENTAL_LOSS"]


def native_event(mod):
    return lambda name: getattr(mod.NodeEvent, name, None) or getattr(mod.EdgeEvent, name)


def setup(E):
    from pyvc.values import EnumClass

    E.declare_enum("Event", EVENTS)
    # NodeEvent / EdgeEvent are two Python enums used as keys of one cost dictionary: one SMT datatype
    E.globals["NodeEvent"] = EnumClass("Event", EVENTS[:5])
    E.globals["EdgeEvent"] = EnumClass("Event", EVENTS[5:])
    E.parents = getattr(E, "parents", {})

    # ete3 TreeNode API in the tree vocabulary (assumed contracts, conformance-tested in the stand-in)
    E.spec("kids", "n: Node", "Seq[Node]", None)
    E.axiom("ete3/children-binary", """forall(lambda n: implies(binary(rootof(n)) and not leaf(n),
             len(kids(n)) == 2 and kids(n)[0] == left(n) and kids(n)[1] == right(n)), Node)""",
            "TreeNode.children of an internal node of a binary tree is [left, right]")
    E.axiom("ete3/children-rooted", """forall(lambda n: implies(not leaf(n), rootof(left(n)) == rootof(n) and rootof(right(n)) == rootof(n)), Node)""",
            "children belong to the same tree")
    E.axiom("ete3/binary-subtree", "forall(lambda n: binary(rootof(n)) == binary(rootof(rootof(n))), Node)", "trivial")
    E.native_ns["kids"] = lambda n: list(n.children)
    E.declare_ref_attr("Node", "children", "kids")
    add = E.registry.add
    add(Contract("ete3:Node.is_leaf", kind="assumed", params={"self": "Node"}, returns="Bool",
                 ensures=["result == leaf(self)"], note="ete3 TreeNode.is_leaf() <=> no children"))

    E.declare_class("ReconciliationInput", {
        "object_tree": "Node", "species_lca": "LowestCommonAncestor",
        "leaf_object_species": "Map[Node, Node]", "costs": "Map[Event, Ext]"})
    E.declare_class("ReconciliationOutput", {"input": "ReconciliationInput", "object_species": "Map[Node, Node]"})

    # ---- the documented event model, phrased through child-subtree membership (not through lca queries)
    E.spec("event_spec", "s: Node, x: Node, y: Node", "Event", """
        Event.INVALID if ((anc(x, s) and x != s) or (anc(y, s) and y != s)) else
        ((Event.SPECIATION if ((not leaf(s)) and ((anc(left(s), x) and anc(right(s), y)) or (anc(right(s), x) and anc(left(s), y))))
          else Event.DUPLICATION) if (anc(s, x) and anc(s, y)) else
         (Event.HORIZONTAL_TRANSFER if (anc(s, x) or anc(s, y)) else Event.INVALID))""")
    E.globals["Event"] = EnumClass("Event", EVENTS)
    E.spec("node_event_spec", "rec: Map[Node, Node], lm: Map[Node, Node], n: Node", "Event", """
        (Event.LEAF if rec[n] == lm[n] else Event.INVALID) if leaf(n) else event_spec(rec[n], rec[left(n)], rec[right(n)])""")
    # unit cost per event + one full loss per species edge skipped on a vertical branch
    E.spec("eval_cost", "rec: Map[Node, Node], lm: Map[Node, Node], costs: Map[Event, Ext], n: Node", "Ext", """
        inf if node_event_spec(rec, lm, n) == Event.INVALID else
        (0 if node_event_spec(rec, lm, n) == Event.LEAF else
         (costs[Event.SPECIATION] + eval_cost(rec, lm, costs, left(n)) + eval_cost(rec, lm, costs, right(n))
            + costs[Event.FULL_LOSS] * (dist(rec[n], rec[left(n)]) + dist(rec[n], rec[right(n)]) - 2)
          if node_event_spec(rec, lm, n) == Event.SPECIATION else
          (costs[Event.DUPLICATION] + eval_cost(rec, lm, costs, left(n)) + eval_cost(rec, lm, costs, right(n))
             + costs[Event.FULL_LOSS] * (dist(rec[n], rec[left(n)]) + dist(rec[n], rec[right(n)]))
           if node_event_spec(rec, lm, n) == Event.DUPLICATION else
           (costs[Event.HORIZONTAL_TRANSFER] + eval_cost(rec, lm, costs, left(n)) + eval_cost(rec, lm, costs, right(n))
             + costs[Event.FULL_LOSS] * (dist(rec[n], rec[left(n)]) if anc(rec[n], rec[left(n)]) else dist(rec[n], rec[right(n)]))))))""")

    # well-formed input / output (the validity conditions of the property statement)
    WF_IN = [
        ("binary-trees", "binary({I}.object_tree) and binary({I}.species_lca.tree)"),
        ("roots", "rootof({I}.object_tree) == {I}.object_tree and rootof({I}.species_lca.tree) == {I}.species_lca.tree"),
        ("leaf-map-total", "forall(lambda n: implies(rootof(n) == {I}.object_tree and leaf(n), n in {I}.leaf_object_species and rootof({I}.leaf_object_species[n]) == {I}.species_lca.tree), Node)"),
        ("costs-present", "Event.SPECIATION in {I}.costs and Event.DUPLICATION in {I}.costs and Event.HORIZONTAL_TRANSFER in {I}.costs and Event.FULL_LOSS in {I}.costs and Event.SEGMENTAL_LOSS in {I}.costs"),
        ("costs-nonneg", "{I}.costs[Event.SPECIATION] >= 0 and {I}.costs[Event.DUPLICATION] >= 0 and {I}.costs[Event.HORIZONTAL_TRANSFER] >= 0 and {I}.costs[Event.FULL_LOSS] >= 0 and {I}.costs[Event.SEGMENTAL_LOSS] >= 0"),
        ("unit-costs-finite", "is_fin({I}.costs[Event.SPECIATION]) and is_fin({I}.costs[Event.DUPLICATION]) and is_fin({I}.costs[Event.FULL_LOSS]) and is_fin({I}.costs[Event.SEGMENTAL_LOSS])"),
    ]
    WF_OUT = [(n, t.replace("{I}", "self.input")) for n, t in WF_IN] + [
        ("mapping-total", "forall(lambda n: implies(rootof(n) == self.input.object_tree, n in self.object_species and rootof(self.object_species[n]) == self.input.species_lca.tree), Node)"),
    ]
    E._wf_in = WF_IN
    E._wf_out = WF_OUT
    G = {"inf": E.globals["inf"]}
    add(Contract(
        f"{M}:ReconciliationOutput.node_event",
        params={"self": "ReconciliationOutput", "node": "Node"}, returns="Event",
        requires=WF_OUT + ["rootof(node) == self.input.object_tree"],
        ensures=["result == node_event_spec(self.object_species, self.input.leaf_object_species, node)"],
        globals=G, canary="result == Event.DUPLICATION", props=["C06"]))
    add(Contract(
        f"{M}:ReconciliationOutput._cost_rec",
        params={"self": "ReconciliationOutput", "node": "Node"}, returns="Ext", defaults={"node": None},
        requires=WF_OUT + ["rootof(node) == self.input.object_tree"],
        ensures=["result == eval_cost(self.object_species, self.input.leaf_object_species, self.input.costs, node)"],
        globals=G, canary="result != eval_cost(self.object_species, self.input.leaf_object_species, self.input.costs, node)", props=["C06"]))
    add(Contract(
        f"{M}:ReconciliationOutput.cost",
        params={"self": "ReconciliationOutput"}, returns="Ext",
        requires=WF_OUT,
        ensures=["result == eval_cost(self.object_species, self.input.leaf_object_species, self.input.costs, self.input.object_tree)"],
        globals=G, props=["C06"]))
