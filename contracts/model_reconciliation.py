"""Contracts for superrec2.model.reconciliation: the cost evaluator (property C06; consumed by C01-C05, C07)."""
from pyvc.contracts import Contract, LoopSpec

M = "superrec2.model.reconciliation"
REQUIRES = ["subsequences", "trees"]

EVENTS = ["LEAF", "INVALID", "SPECIATION", "DUPLICATION", "HORIZONTAL_TRANSFER", "FULL_LOSS", "SEGMENTAL_LOSS"]


def native_event(mod):
    return lambda name: getattr(mod.NodeEvent, name, None) or getattr(mod.EdgeEvent, name)


def setup(E):
    from pyvc.values import EnumClass

    E.declare_enum("Event", EVENTS)
    # NodeEvent / EdgeEvent are two Python enums used as keys of one cost dictionary: one SMT datatype
    E.globals["NodeEvent"] = EnumClass("Event", EVENTS[:5])
    E.globals["EdgeEvent"] = EnumClass("Event", EVENTS[5:])
    E.parents = getattr(E, "parents", {})

    # ete3 TreeNode API in the tree vocabulary (assumed contracts, conformance-tested in the stand-in)
    E.spec("kids", "n: Node", "Seq[Node]", None)
    E.axiom("ete3/children-binary", """forall(lambda n: implies(binary(rootof(n)) and not leaf(n),
             len(kids(n)) == 2 and kids(n)[0] == left(n) and kids(n)[1] == right(n)), Node)""",
            "TreeNode.children of an internal node of a binary tree is [left, right]", keys=["kids"])
    E.axiom("ete3/children-rooted", """forall(lambda n: implies(not leaf(n), rootof(left(n)) == rootof(n) and rootof(right(n)) == rootof(n)), Node)""",
            "children belong to the same tree")
    E.axiom("ete3/binary-subtree", "forall(lambda n: binary(rootof(n)) == binary(rootof(rootof(n))), Node)", "trivial")
    E.native_ns["kids"] = lambda n: list(n.children)
    E.declare_ref_attr("Node", "children", "kids")
    add = E.registry.add
    add(Contract("ete3:Node.is_leaf", kind="assumed", params={"self": "Node"}, returns="Bool",
                 ensures=["result == leaf(self)"], note="ete3 TreeNode.is_leaf() <=> no children"))

    E.declare_class("ReconciliationInput", {
        "object_tree": "Node", "species_lca": "LowestCommonAncestor",
        "leaf_object_species": "Map[Node, Node]", "costs": "Map[Event, Ext]"})
    E.declare_class("ReconciliationOutput", {"input": "ReconciliationInput", "object_species": "Map[Node, Node]"}, dataclass=True)

    # ---- the documented event model, phrased through child-subtree membership (not through lca queries)
    E.spec("event_spec", "s: Node, x: Node, y: Node", "Event", """
        Event.INVALID if ((anc(x, s) and x != s) or (anc(y, s) and y != s)) else
        ((Event.SPECIATION if ((not leaf(s)) and ((anc(left(s), x) and anc(right(s), y)) or (anc(right(s), x) and anc(left(s), y))))
          else Event.DUPLICATION) if (anc(s, x) and anc(s, y)) else
         (Event.HORIZONTAL_TRANSFER if (anc(s, x) or anc(s, y)) else Event.INVALID))""")
    E.globals["Event"] = EnumClass("Event", EVENTS)
    E.spec("node_event_spec", "rec: Map[Node, Node], lm: Map[Node, Node], n: Node", "Event", """
        (Event.LEAF if rec[n] == lm[n] else Event.INVALID) if leaf(n) else event_spec(rec[n], rec[left(n)], rec[right(n)])""")
    # unit cost per event + one full loss per species edge skipped on a vertical branch
    E.spec("eval_cost", "rec: Map[Node, Node], lm: Map[Node, Node], costs: Map[Event, Ext], n: Node", "Ext", """
        inf if node_event_spec(rec, lm, n) == Event.INVALID else
        (0 if node_event_spec(rec, lm, n) == Event.LEAF else
         (costs[Event.SPECIATION] + eval_cost(rec, lm, costs, left(n)) + eval_cost(rec, lm, costs, right(n))
            + costs[Event.FULL_LOSS] * (dist(rec[n], rec[left(n)]) + dist(rec[n], rec[right(n)]) - 2)
          if node_event_spec(rec, lm, n) == Event.SPECIATION else
          (costs[Event.DUPLICATION] + eval_cost(rec, lm, costs, left(n)) + eval_cost(rec, lm, costs, right(n))
             + costs[Event.FULL_LOSS] * (dist(rec[n], rec[left(n)]) + dist(rec[n], rec[right(n)]))
           if node_event_spec(rec, lm, n) == Event.DUPLICATION else
           (costs[Event.HORIZONTAL_TRANSFER] + eval_cost(rec, lm, costs, left(n)) + eval_cost(rec, lm, costs, right(n))
             + costs[Event.FULL_LOSS] * (dist(rec[n], rec[left(n)]) if anc(rec[n], rec[left(n)]) else dist(rec[n], rec[right(n)]))))))""")

    # well-formed input / output (the validity conditions of the property statement)
    WF_IN = [
        ("binary-trees", "binary({I}.object_tree) and binary({I}.species_lca.tree)"),
        ("roots", "rootof({I}.object_tree) == {I}.object_tree and rootof({I}.species_lca.tree) == {I}.species_lca.tree"),
        ("leaf-map-total", "forall(lambda n: implies(rootof(n) == {I}.object_tree and leaf(n), n in {I}.leaf_object_species and rootof({I}.leaf_object_species[n]) == {I}.species_lca.tree), Node)"),
        ("costs-present", "Event.SPECIATION in {I}.costs and Event.DUPLICATION in {I}.costs and Event.HORIZONTAL_TRANSFER in {I}.costs and Event.FULL_LOSS in {I}.costs and Event.SEGMENTAL_LOSS in {I}.costs"),
        ("costs-nonneg", "{I}.costs[Event.SPECIATION] >= 0 and {I}.costs[Event.DUPLICATION] >= 0 and {I}.costs[Event.HORIZONTAL_TRANSFER] >= 0 and {I}.costs[Event.FULL_LOSS] >= 0 and {I}.costs[Event.SEGMENTAL_LOSS] >= 0"),
        ("unit-costs-finite", "is_fin({I}.costs[Event.SPECIATION]) and is_fin({I}.costs[Event.DUPLICATION]) and is_fin({I}.costs[Event.FULL_LOSS]) and is_fin({I}.costs[Event.SEGMENTAL_LOSS])"),
    ]
    WF_OUT = [(n, t.replace("{I}", "self.input")) for n, t in WF_IN] + [
        ("mapping-total", "forall(lambda n: implies(rootof(n) == self.input.object_tree, n in self.object_species and rootof(self.object_species[n]) == self.input.species_lca.tree), Node)"),
    ]
    E._wf_in = WF_IN
    E._wf_out = WF_OUT
    G = {"inf": E.globals["inf"]}
    add(Contract(
        f"{M}:ReconciliationOutput.node_event",
        params={"self": "ReconciliationOutput", "node": "Node"}, returns="Event",
        requires=WF_OUT + ["rootof(node) == self.input.object_tree"],
        ensures=["result == node_event_spec(self.object_species, self.input.leaf_object_species, node)"],
        globals=G, canary="result == Event.DUPLICATION", props=["C06"]))
    add(Contract(
        f"{M}:ReconciliationOutput._cost_rec",
        params={"self": "ReconciliationOutput", "node": "Node"}, returns="Ext", defaults={"node": None},
        requires=WF_OUT + ["rootof(node) == self.input.object_tree"],
        ensures=["result == eval_cost(self.object_species, self.input.leaf_object_species, self.input.costs, node)"],
        globals=G, canary="result != eval_cost(self.object_species, self.input.leaf_object_species, self.input.costs, node)", props=["C06"]))
    add(Contract(
        f"{M}:ReconciliationOutput.cost",
        params={"self": "ReconciliationOutput"}, returns="Ext",
        requires=WF_OUT,
        ensures=["result == eval_cost(self.object_species, self.input.leaf_object_species, self.input.costs, self.input.object_tree)"],
        globals=G, props=["C06"]))


def _labeling(E):
    from pyvc.contracts import Contract, LoopSpec

    add = E.registry.add
    G = {"inf": E.globals["inf"]}
    E.parents["SuperReconciliationInput"] = "ReconciliationInput"
    E.parents["SuperReconciliationOutput"] = "ReconciliationOutput"
    E.declare_class("SuperReconciliationInput", {
        "object_tree": "Node", "species_lca": "LowestCommonAncestor", "leaf_object_species": "Map[Node, Node]",
        "costs": "Map[Event, Ext]", "leaf_syntenies": "Map[Node, Seq[Elem]]"})
    E.declare_class("SuperReconciliationOutput", {
        "input": "SuperReconciliationInput", "object_species": "Map[Node, Node]",
        "syntenies": "Map[Node, Seq[Elem]]", "ordered": "Bool"}, dataclass=True)

    # ---- ordered model: segmental losses per lost run; ends free for the partial copy
    E.spec("node_mask", "syn: Map[Node, Seq[Elem]], tree: Node, n: Node", "Int",
           "pow2(len(syn[tree])) - 1 if n == tree else mask_from(syn[n], 0, syn[tree], 0)")
    E.spec("olab_term", "rec: Map[Node, Node], lm: Map[Node, Node], syn: Map[Node, Seq[Elem]], tree: Node, u: Node", "Int", """
        (segd(node_mask(syn, tree, left(u)), node_mask(syn, tree, u), True) + segd(node_mask(syn, tree, right(u)), node_mask(syn, tree, u), True))
        if node_event_spec(rec, lm, u) == Event.SPECIATION else
        (min(segd(node_mask(syn, tree, left(u)), node_mask(syn, tree, u), True) + segd(node_mask(syn, tree, right(u)), node_mask(syn, tree, u), False),
             segd(node_mask(syn, tree, left(u)), node_mask(syn, tree, u), False) + segd(node_mask(syn, tree, right(u)), node_mask(syn, tree, u), True))
         if node_event_spec(rec, lm, u) == Event.DUPLICATION else
         (segd(node_mask(syn, tree, left(u)), node_mask(syn, tree, u), anc(rec[u], rec[left(u)]) or anc(rec[left(u)], rec[u]))
          + segd(node_mask(syn, tree, right(u)), node_mask(syn, tree, u), not (anc(rec[u], rec[left(u)]) or anc(rec[left(u)], rec[u])))))""")
    E.spec("olab_sum", "rec: Map[Node, Node], lm: Map[Node, Node], syn: Map[Node, Seq[Elem]], sl: Ext, tree: Node, k: Int", "Ext", """
        0 if k <= 0 else olab_sum(rec, lm, syn, sl, tree, k - 1)
            + (0 if leaf(pre_nth(tree, k - 1)) else olab_term(rec, lm, syn, tree, pre_nth(tree, k - 1)) * sl)""")
    # ---- unordered model: one segmental loss per charged edge on which some parent family is missing
    # some family of u is missing from c  (exists f: f in syn[u] and f not in syn[c]); stated with an explicit witness
    E.spec("fam_lost", "syn: Map[Node, Seq[Elem]], u: Node, c: Node", "Bool", None,
           native=lambda syn, u, c: any(f not in syn[c] for f in syn[u]))
    E.spec("fam_wit", "syn: Map[Node, Seq[Elem]], u: Node, c: Node", "Elem", None)
    E.spec_fact("fam_lost", "fam_lost/witness", "implies(fam_lost(syn, u, c), (fam_wit(syn, u, c) in syn[u]) and not (fam_wit(syn, u, c) in syn[c]))")
    E.spec_fact("fam_lost", "fam_lost/intro", "forall(lambda f: implies((f in syn[u]) and not (f in syn[c]), fam_lost(syn, u, c)), Elem)")
    E.spec("ulab_term", "rec: Map[Node, Node], lm: Map[Node, Node], syn: Map[Node, Seq[Elem]], sl: Ext, u: Node", "Ext", """
        ((sl if fam_lost(syn, u, left(u)) else 0) + (sl if fam_lost(syn, u, right(u)) else 0))
        if node_event_spec(rec, lm, u) == Event.SPECIATION else
        (min(sl if fam_lost(syn, u, left(u)) else 0, sl if fam_lost(syn, u, right(u)) else 0)
         if node_event_spec(rec, lm, u) == Event.DUPLICATION else
         ((sl if fam_lost(syn, u, left(u)) else 0) if (anc(rec[u], rec[left(u)]) or anc(rec[left(u)], rec[u]))
          else (sl if fam_lost(syn, u, right(u)) else 0)))""")
    E.spec("ulab_sum", "rec: Map[Node, Node], lm: Map[Node, Node], syn: Map[Node, Seq[Elem]], sl: Ext, tree: Node, k: Int", "Ext", """
        0 if k <= 0 else ulab_sum(rec, lm, syn, sl, tree, k - 1)
            + (0 if leaf(pre_nth(tree, k - 1)) else ulab_term(rec, lm, syn, sl, pre_nth(tree, k - 1)))""")

    WF_S = E._wf_out + [
        ("syntenies-total", "forall(lambda n: implies(rootof(n) == self.input.object_tree, n in self.syntenies), Node)"),
        ("events-valid", """forall(lambda n: implies(rootof(n) == self.input.object_tree and not leaf(n),
              node_event_spec(self.object_species, self.input.leaf_object_species, n) != Event.INVALID), Node)"""),
    ]
    E._wf_s = WF_S
    COMMON_INV = [
        "tree == self.input.object_tree and rec == self.object_species and sloss_cost == self.input.costs[Event.SEGMENTAL_LOSS]",
    ]
    add(Contract(
        f"{M}:SuperReconciliationOutput._ordered_labeling_cost",
        params={"self": "SuperReconciliationOutput"}, returns="Ext",
        requires=WF_S,
        ensures=["""result == olab_sum(self.object_species, self.input.leaf_object_species, self.syntenies,
                                     self.input.costs[Event.SEGMENTAL_LOSS], self.input.object_tree, size(self.input.object_tree))"""],
        locals={"total_cost": "Ext", "masks": "Map[Node, Int]"}, globals=G, fuel=3,
        at={"if event == NodeEvent.SPECIATION": [
            "assert sub_mask == node_mask(self.syntenies, tree, node)",
            "assert left_mask == node_mask(self.syntenies, tree, left(node))",
            "assert right_mask == node_mask(self.syntenies, tree, right(node))"]},
        loops={0: LoopSpec(
            header="for node in tree.traverse('preorder')", index="k", length="n",
            invariants=COMMON_INV + [
                "root_syn == self.syntenies[tree]",
                "total_cost == olab_sum(rec, self.input.leaf_object_species, self.syntenies, sloss_cost, tree, k)",
                """forall(lambda m: implies(anc(tree, m) and (m == tree or pre_idx(tree, up(m)) < k),
                        (m in masks) and masks[m] == node_mask(self.syntenies, tree, m) and masks[m] >= 0), Node)""",
            ])},
        props=["C06"]))
    add(Contract(
        f"{M}:SuperReconciliationOutput._unordered_labeling_cost",
        params={"self": "SuperReconciliationOutput"}, returns="Ext",
        requires=WF_S,
        ensures=["""result == ulab_sum(self.object_species, self.input.leaf_object_species, self.syntenies,
                                     self.input.costs[Event.SEGMENTAL_LOSS], self.input.object_tree, size(self.input.object_tree))"""],
        locals={"total_cost": "Ext"}, globals=G, fuel=3,
        at={"if event == NodeEvent.SPECIATION": [
            "assert left_cost == (sloss_cost if fam_lost(self.syntenies, node, left(node)) else 0)",
            "assert right_cost == (sloss_cost if fam_lost(self.syntenies, node, right(node)) else 0)"]},
        loops={0: LoopSpec(
            header="for node in tree.traverse('preorder')", index="k", length="n",
            invariants=COMMON_INV + [
                "total_cost == ulab_sum(rec, self.input.leaf_object_species, self.syntenies, sloss_cost, tree, k)",
            ])},
        props=["C06"]))
    add(Contract(
        f"{M}:SuperReconciliationOutput.reconciliation_cost",
        params={"self": "SuperReconciliationOutput"}, returns="Ext", requires=WF_S,
        ensures=["result == eval_cost(self.object_species, self.input.leaf_object_species, self.input.costs, self.input.object_tree)"],
        globals=G, props=["C06"]))
    LAB = """(olab_sum(self.object_species, self.input.leaf_object_species, self.syntenies, self.input.costs[Event.SEGMENTAL_LOSS], self.input.object_tree, size(self.input.object_tree))
              if self.ordered else
              ulab_sum(self.object_species, self.input.leaf_object_species, self.syntenies, self.input.costs[Event.SEGMENTAL_LOSS], self.input.object_tree, size(self.input.object_tree)))"""
    add(Contract(
        f"{M}:SuperReconciliationOutput.labeling_cost",
        params={"self": "SuperReconciliationOutput"}, returns="Ext", requires=WF_S,
        ensures=[f"result == {LAB}"], globals=G, props=["C06"]))
    add(Contract(
        f"{M}:SuperReconciliationOutput.cost",
        params={"self": "SuperReconciliationOutput"}, returns="Ext", requires=WF_S,
        ensures=[f"result == eval_cost(self.object_species, self.input.leaf_object_species, self.input.costs, self.input.object_tree) + {LAB}"],
        globals=G, props=["C06"]))


_setup_core = setup


def setup(E):  # noqa: F811
    _setup_core(E)
    _labeling(E)


def _scopes(E):
    import itertools
    from pyvc.driver import Scope
    from pyvc import native
    from standin import recon

    def hook(ns, src_root):
        mod = native.import_real(M, src_root)

        class EventNS:
            pass

        for name in EVENTS:
            setattr(EventNS, name, getattr(mod.NodeEvent, name, None) or getattr(mod.EdgeEvent, name))
        ns["Event"] = EventNS
        ns["NodeEvent"] = mod.NodeEvent
        ns["EdgeEvent"] = mod.EdgeEvent

    E.native_hooks.append(hook)

    COSTS = [[0, 1, 1, 1, 1], [2, 3, 1, 2, 1], [1, 0, "inf", 0, 2], [5, 1, 2, 1, 0]]

    def inputs(tier, rng, with_syn=False):
        osz = (2, 3) if tier != "thorough" else (1, 2, 3, 4)
        ssz = (1, 2, 3) if tier != "thorough" else (1, 2, 3, 4)
        for on in osz:
            for osh in recon.binary_shapes(on):
                for sn in ssz:
                    for ssh in recon.binary_shapes(sn):
                        ns = 2 * sn - 1
                        sleaves = None
                        lms = list(itertools.product(range(ns), repeat=on))
                        rng.shuffle(lms)
                        for lm in lms[: (4 if tier != "thorough" else 12)]:
                            yield {"obj": osh, "sp": ssh, "leafmap": list(lm), "costs": rng.choice(COSTS)}

    def recs(recipe, rng, limit):
        on = sum(1 for _ in _nodes(recipe["obj"]))
        internal = [i for i, sh in enumerate(_nodes(recipe["obj"])) if sh]
        ns = sum(1 for _ in _nodes(recipe["sp"]))
        allc = list(itertools.product(range(ns), repeat=len(internal)))
        rng.shuffle(allc)
        for c in allc[:limit]:
            yield dict(zip(internal, c))

    def _nodes(sh):
        yield sh
        for c in sh:
            yield from _nodes(c)

    def gen_out(tier, rng):
        for r in inputs(tier, rng):
            for rec in recs(r, rng, 12 if tier != "thorough" else 60):
                yield dict(r, rec={str(k): v for k, v in rec.items()})

    def build_output(recipe, src_root, syn=None):
        mod = native.import_real(M, src_root)
        inp, onodes, snodes = recon.make_input(src_root, recipe)
        rec = dict(inp.leaf_object_species)
        for k, v in recipe["rec"].items():
            rec[onodes[int(k)]] = snodes[v]
        if syn is None:
            out = mod.ReconciliationOutput(inp, rec)
        else:
            out = mod.SuperReconciliationOutput(input=inp, object_species=rec, syntenies={onodes[int(k)]: list(v) for k, v in syn.items()}, ordered=recipe["ordered"])
        u = native.Universe()
        u.domains["Node"] = onodes + snodes
        u.domains["Int"] = list(range(-1, 4))
        u.domains["Elem"] = list("abcd")
        return out, onodes, snodes, u

    def build_cost(recipe, src_root):
        out, onodes, snodes, u = build_output(recipe, src_root)
        return (lambda self: self.cost()), {"self": out}, u

    def build_event(recipe, src_root):
        out, onodes, snodes, u = build_output(recipe, src_root)
        return (lambda self, node: self.node_event(node)), {"self": out, "node": onodes[recipe["node"]]}, u

    def gen_event(tier, rng):
        for r in gen_out(tier, rng):
            n = sum(1 for _ in _nodes(r["obj"]))
            yield dict(r, node=rng.randrange(n))

    d = "binary object trees with 2-3 (1-4 thorough) leaves x species trees with 1-3 (1-4) leaves, sampled leaf assignments, 12 (60) random species mappings each (valid or not), four cost vectors incl. infinite transfer cost"
    E.registry.scopes[f"{M}:ReconciliationOutput.cost"] = Scope(gen_out, build_cost, describe=d)
    E.registry.scopes[f"{M}:ReconciliationOutput.node_event"] = Scope(gen_event, build_event, describe=d)

    # labelled outputs: random labellings over {a,b,c,d}
    def gen_lab(tier, rng):
        for r in gen_out(tier, rng):
            nodes = list(_nodes(r["obj"]))
            for _ in range(2):
                ordered = rng.random() < 0.5
                root = rng.sample(list("abcd"), rng.randrange(1, 5))
                syn = {}
                for i, sh in enumerate(nodes):
                    if i == 0:
                        syn["0"] = root
                    else:
                        sub = [f for f in root if rng.random() < 0.7]
                        if rng.random() < 0.1:
                            sub = sub[::-1]
                        syn[str(i)] = sub
                yield dict(r, syn=syn, ordered=ordered)

    def build_lab(method):
        def build(recipe, src_root):
            out, onodes, snodes, u = build_output(recipe, src_root, syn=recipe["syn"])
            return (lambda self: getattr(self, method)()), {"self": out}, u
        return build

    for meth in ("_ordered_labeling_cost", "_unordered_labeling_cost", "labeling_cost", "cost", "reconciliation_cost"):
        E.registry.scopes[f"{M}:SuperReconciliationOutput.{meth}"] = Scope(
            gen_lab, build_lab(meth), describe=d + "; two random labellings over families {a,b,c,d} each (the validity precondition filters)")


_setup_lab = setup


def setup(E):  # noqa: F811
    _setup_lab(E)
    _scopes(E)
