"""Contracts / bounded stand-ins for superrec2.render (C13, C15)."""

REQUIRES = ["model_reconciliation"]


def setup(E):
    from standin import render

    E._c13 = render.standin(
        "diagram:events-losses-transfers-vs-event-model", "c13",
        "bounded: 160 (2500) valid reconciliations of random binary inputs <= 5 (10) object leaves x <= 5 species leaves, with / without syntenies, both orientations, stub TeX measurer with arbitrary positive sizes",
        "layout.compute + tikz.render on valid reconciliations (random species mappings filtered by the parent-chain event model): one event node per object node, in its species, of the model's kind; "
        "one loss node per full loss counted by the model, in the species where it occurs, marker on that species' trunk on the side of the child that loses the copy; one arrow per transfer ending at the "
        "anchor of the transferred child; node counts of the TikZ text; distinct = distinct recipes")
    E._c15 = render.standin(
        "tikz-text:well-formed-and-labels-faithful", "c15",
        "bounded: same reconciliations with random names (underscores, backslashes, blanks), nested colour annotations, syntenies <= 12 families, wrap widths 1-30; balanced_wrap exhaustively on word lists <= 4 (5) words over 5 word lengths x 8 widths + 300 (5000) random",
        "balanced braces, one picture environment, every statement terminated, colours defined before the picture, colour scoping (nearest coloured ancestor-or-self; loss nodes take the colour of the lost lineage), "
        "escaping of underscores / backslashes in gene, species and family names, synteny labels list exactly the families in order and are omitted only when equal to the parent's, wrapped labels keep every word, "
        "respect the width unless a single word is longer, and use no more lines than greedy wrapping; distinct = distinct recipes")
