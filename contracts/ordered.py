"""Contracts for superrec2.compute.super_reconciliation: the family precedence graph (C02)."""
from pyvc.contracts import Contract, LoopSpec

M = "superrec2.compute.super_reconciliation"
REQUIRES = ["model_reconciliation"]


def setup(E):
    add = E.registry.add
    LS = "leaf_syntenies"
    # clauses over the leaves n for which SEEN(n) holds, and - for the leaf being processed - over the positions below CURJ
    def clauses(SEEN, cur=None):
        OCC = lambda a, i: f"(0 <= i and i < len({LS}[n]) and {LS}[n][i] == {a})"
        PAIR = lambda a, b: f"(0 <= i and i + 1 < len({LS}[n]) and {LS}[n][i] == {a} and {LS}[n][i + 1] == {b})"
        cur_v = cur_e = cur_vc = cur_ec = "False"
        if cur is not None:
            s, j, extra = cur
            cur_v = f"exists(lambda i: 0 <= i and i < {j} and {s}[i] == a, Int)" + (f" or {extra}" if extra else "")
            cur_e = f"exists(lambda i: 0 <= i and i < {j} and i + 1 < len({s}) and {s}[i] == a and {s}[i + 1] == b, Int)"
        out = [
            ("vertices-sound", f"forall(lambda a: implies(a in prec, exists(lambda n, i: (n in {LS}) and {SEEN('n')} and {OCC('a', 'i')}, Node, Int) or {cur_v}), Elem)"),
            ("vertices-complete", f"forall(lambda n, i: implies((n in {LS}) and {SEEN('n')} and 0 <= i and i < len({LS}[n]), {LS}[n][i] in prec), Node, Int)"),
            ("edges-sound", f"forall(lambda a, b: implies((a in prec) and (b in prec[a]), exists(lambda n, i: (n in {LS}) and {SEEN('n')} and {PAIR('a', 'b')}, Node, Int) or {cur_e}), Elem, Elem)"),
            ("edges-complete", f"forall(lambda n, i: implies((n in {LS}) and {SEEN('n')} and 0 <= i and i + 1 < len({LS}[n]), ({LS}[n][i] in prec) and ({LS}[n][i + 1] in prec[{LS}[n][i]])), Node, Int)"),
        ]
        if cur is not None:
            s, j, extra = cur
            out += [
                ("current-vertices", f"forall(lambda i: implies(0 <= i and i < {j} and i < len({s}), {s}[i] in prec), Int)"),
                ("current-edges", f"forall(lambda i: implies(0 <= i and i < {j} and i + 1 < len({s}), ({s}[i] in prec) and ({s}[i + 1] in prec[{s}[i]])), Int)"),
            ]
        return out

    ALL = lambda n: "True"
    add(Contract(
        f"{M}:_make_prec_graph", params={"leaf_syntenies": "Map[Node, Seq[Elem]]"}, returns="Map[Elem, Set[Elem]]",
        requires=[("non-empty-syntenies", f"forall(lambda n: implies(n in {LS}, len({LS}[n]) >= 1), Node)")],
        ensures=[(n, t.replace("prec", "result")) for n, t in clauses(ALL)],
        locals={"prec": "Map[Elem, Set[Elem]]"},
        loops={
            0: LoopSpec(header="for leaf_synteny in leaf_syntenies.values()", index="k", length="n", seq="P",
                        invariants=clauses(lambda n: f"P_idx({n}) < k")),
            1: LoopSpec(header="for (gene_1, gene_2) in zip(leaf_synteny[0:-1], leaf_synteny[1:])", index="j", length="nj",
                        invariants=[("current-leaf", f"(P_key(k) in {LS}) and leaf_synteny == {LS}[P_key(k)] and len(leaf_synteny) >= 1 and 0 <= k")]
                        + clauses(lambda n: f"P_idx({n}) < k", cur=("leaf_synteny", "j", None))),
        },
        props=["C02"]))
