"""C19: no contract within the solver's reach (in-degree = cardinality of unprocessed predecessors); bounded stand-in only."""


def setup(E):
    from standin import c19

    E._c19 = c19.standin()
