"""Contracts for superrec2.utils.toposort (C19): the single-ordering routine `toposort` (Kahn's algorithm).

Postconditions (taken from the property): a returned list is a topological ordering (every vertex exactly once, every edge forward);
`None` is returned only when NO sequence is a topological ordering (stated for an arbitrary ghost sequence `pi`, i.e. for all of them).

The counting part of Kahn's algorithm (in-degree = number of predecessors not yet output) is carried by a ghost counting function
`rem(graph, D, v)` = |{u in graph, u not in D : v in graph[u]}|, of which only four first-order facts are used (ASSUMED axioms: they are
statements about cardinalities of finite sets, which the SMT back ends cannot define) and by two pigeonhole facts about `len(dict)`
(ASSUMED lemmas).  All of them are evaluated on concrete graphs by the bounded stand-in `toposort:counting-axioms`.
`collections.deque` is modelled as a sequence (popleft / append / remove-first-occurrence, stated element-wise by the engine).
"""
from pyvc.contracts import Contract, LoopSpec

M = "superrec2.utils.toposort"
REQUIRES = []

G = "Map[Vtx, Set[Vtx]]"


def _native_rem(graph, done, v):
    return sum(1 for u in graph if u not in done and v in graph[u])


def _native_is_order(g, p):
    return (all(x in g for x in p) and all(u in p for u in g)
            and all(i < j for i in range(len(p)) for j in range(len(p)) if p[j] in g[p[i]]))


def _native_rem_wit(graph, done, v):
    for u in graph:
        if u not in done and v in graph[u]:
            return u
    return None


def setup(E):
    add = E.registry.add
    E.declare_ref("Vtx")
    # ---- ghost counting function and what is assumed of it
    E.spec("rem", f"g: {G}, d: Set[Vtx], v: Vtx", "Int", None, native=_native_rem)
    E.declare_ufun("rem_wit", [G, "Set[Vtx]", "Vtx"], "Vtx", native=_native_rem_wit)
    note = "cardinality of a finite predecessor set: |{u in g, u not in d : v in g[u]}|; not definable in the SMT theories used, validated on concrete graphs by the bounded stand-in"
    K = ["rem"]
    E.axiom("rem/non-negative", "forall(lambda g, d, v: rem(g, d, v) >= 0, Map[Vtx, Set[Vtx]], Set[Vtx], Vtx, pat=[rem(g, d, v)])", note, keys=K)
    E.axiom("rem/zero-means-all-predecessors-done",
            "forall(lambda g, d, v, u: implies(rem(g, d, v) == 0 and (u in g) and (v in g[u]), u in d), Map[Vtx, Set[Vtx]], Set[Vtx], Vtx, Vtx, mpat=[rem(g, d, v), v in g[u]])", note, keys=K)
    E.axiom("rem/positive-has-a-pending-predecessor",
            "forall(lambda g, d, v: implies(rem(g, d, v) > 0, (rem_wit(g, d, v) in g) and (v in g[rem_wit(g, d, v)]) and not (rem_wit(g, d, v) in d)), Map[Vtx, Set[Vtx]], Set[Vtx], Vtx, pat=[rem(g, d, v)])",
            note, keys=K)
    E.axiom("rem/one-more-done",
            "forall(lambda g, d, u, v: implies((u in g) and not (u in d), rem(g, d | {u}, v) == rem(g, d, v) - (1 if v in g[u] else 0)), Map[Vtx, Set[Vtx]], Set[Vtx], Vtx, Vtx, pat=[rem(g, d | {u}, v)])",
            note, keys=K)

    DISTINCT = lambda s: f"forall(lambda i, j: implies(0 <= i and i < j and j < len({s}), {s}[i] != {s}[j]), Int, Int)"
    INDOM = lambda s: f"forall(lambda i: implies(0 <= i and i < len({s}), {s}[i] in graph), Int)"
    # ---- pigeonhole facts about len(dict) (assumed lemmas, instantiated explicitly)
    add(Contract("lemma_card_full", kind="assumed", params={"graph": G, "s": "Seq[Vtx]"},
                 requires=[DISTINCT("s"), INDOM("s"), "len(s) == len(graph)"],
                 ensures=["forall(lambda u: implies(u in graph, u in s), Vtx)"],
                 note="pigeonhole: a duplicate-free sequence of keys as long as the dict has keys contains every key", props=["C19"]))
    add(Contract("lemma_card_cover", kind="assumed", params={"graph": G, "s": "Seq[Vtx]"},
                 requires=[DISTINCT("s"), INDOM("s"), "forall(lambda u: implies(u in graph, u in s), Vtx)"],
                 ensures=["len(s) == len(graph)"],
                 note="a duplicate-free sequence of keys containing every key has the length of the dict", props=["C19"]))
    add(Contract("lemma_card_bound", kind="assumed", params={"graph": G, "s": "Seq[Vtx]"},
                 requires=[DISTINCT("s"), INDOM("s")],
                 ensures=["len(s) <= len(graph)"],
                 note="pigeonhole: a duplicate-free sequence of keys is not longer than the dict has keys", props=["C19"]))
    add(Contract("collections:deque", kind="assumed", params={"iterable": G}, returns="Seq[Vtx]",
                 ensures=[DISTINCT("result"), "forall(lambda i: implies(0 <= i and i < len(result), result[i] in iterable), Int)",
                          "forall(lambda u: implies(u in iterable, u in result), Vtx)"],
                 note="deque(dict): the keys, each once, in iteration order; a deque is modelled as a sequence", props=["C19"]))

    # ---- what a topological ordering is (distinctness is not needed for the impossibility direction, which makes that clause stronger)
    E.spec("is_order", f"g: {G}, p: Seq[Vtx]", "Bool", """
        forall(lambda i: implies(0 <= i and i < len(p), p[i] in g), Int)
        and forall(lambda u: implies(u in g, u in p), Vtx)
        and forall(lambda i, j: implies(0 <= i and i < len(p) and 0 <= j and j < len(p) and (p[j] in g[p[i]]), i < j), Int, Int)""", native=_native_is_order)
    CLOSED = "forall(lambda u, v: implies((u in graph) and (v in graph[u]), v in graph), Vtx, Vtx)"
    STUCK = "forall(lambda v: implies((v in graph) and not (v in R), exists(lambda u: (u in graph) and not (u in R) and (v in graph[u]), Vtx)), Vtx)"
    add(Contract(
        "lemma_stuck_blocks_every_order", kind="lemma", params={"graph": G, "R": "Set[Vtx]", "pi": "Seq[Vtx]", "k": "Int"},
        requires=[("stuck", STUCK), "0 <= k and k <= len(pi)",
                  ("order-in-graph", "forall(lambda i: implies(0 <= i and i < len(pi), pi[i] in graph), Int)"),
                  ("order-covers", "forall(lambda u: implies(u in graph, exists(lambda j: 0 <= j and j < len(pi) and pi[j] == u, Int)), Vtx)"),
                  ("order-forward", "forall(lambda i, j: implies(0 <= i and i < len(pi) and 0 <= j and j < len(pi) and (pi[j] in graph[pi[i]]), i < j), Int, Int)")],
        ensures=["forall(lambda i: implies(0 <= i and i < k, pi[i] in R), Int)"],
        body="""
        if k > 0:
            lemma_stuck_blocks_every_order(graph, R, pi, k - 1)
        """, decreases="k", props=["C19"]))

    # ---- invariants of the main loop
    RES = [
        ("result-distinct", DISTINCT("result")),
        ("result-in-graph", INDOM("result")),
        ("R-is-result", "forall(lambda x: (x in R) == (x in result), Vtx)"),
        ("predecessors-earlier", "forall(lambda i, u: implies(0 <= i and i < len(result) and (u in graph) and (result[i] in graph[u]), exists(lambda j: 0 <= j and j < i and result[j] == u, Int)), Int, Vtx)"),
        ("R-predecessor-closed", "forall(lambda v, u: implies((v in R) and (u in graph) and (v in graph[u]), u in R), Vtx, Vtx)"),
        ("indeg-keys", "forall(lambda v: (v in indeg) == (v in graph), Vtx)"),
        ("starts-distinct", DISTINCT("starts")),
    ]
    STARTS = ("starts-are-ready", "forall(lambda v: (v in starts) == ((v in graph) and not (v in R) and indeg[v] == 0), Vtx)")
    add(Contract(
        f"{M}:toposort", params={"graph": G}, returns="Opt[Seq[Vtx]]", ghost={"pi": "Seq[Vtx]"},
        requires=[("successors-are-vertices", CLOSED)],
        ensures=[
            ("order-each-vertex-once", "implies(result is not None, " + DISTINCT("the(result)") + " and " + INDOM("the(result)") + " and forall(lambda u: implies(u in graph, u in the(result)), Vtx))"),
            ("order-edges-forward", "implies(result is not None, forall(lambda i, j: implies(0 <= i and i < len(the(result)) and 0 <= j and j < len(the(result)) and (the(result)[j] in graph[the(result)[i]]), i < j), Int, Int))"),
            ("none-only-if-no-order-exists", "implies(result is None, not is_order(graph, pi))"),
        ],
        locals={"starts": "Seq[Vtx]", "indeg": "Map[Vtx, Int]", "result": "Seq[Vtx]", "R": "Set[Vtx]", "R0": "Set[Vtx]", "D": "Set[Vtx]", "D0": "Set[Vtx]", "E0": "Set[Vtx]"},
        prologue=["E0 = set()", "D = set()", "R = set()", "R0 = set()", "D0 = set()"],
        loops={
            # in-degree computation: D = keys already processed
            0: LoopSpec(header="for succs in graph.values()", index="k", length="n", seq="P", invariants=[
                ("D-is-processed", "forall(lambda x: (x in D) == ((x in graph) and P_idx(x) < k), Vtx)"),
                ("indeg-keys", "forall(lambda v: (v in indeg) == (v in graph), Vtx)"),
                ("indeg-counts-processed", "forall(lambda v: implies(v in graph, indeg[v] == rem(graph, E0, v) - rem(graph, D, v)), Vtx)"),
                ("starts-distinct", DISTINCT("starts")), ("indeg-non-negative", "forall(lambda v: implies(v in graph, indeg[v] >= 0), Vtx)"),
                ("starts-are-untouched", "forall(lambda v: (v in starts) == ((v in graph) and indeg[v] == 0), Vtx)"),
                ("E0-empty", "forall(lambda x: not (x in E0), Vtx)"), ("result-empty", "len(result) == 0"),
            ]),
            1: LoopSpec(header="for succ in succs", index="j", length="nj", seq="Q", invariants=[
                ("current-key", "0 <= k and k < n and (P_key(k) in graph) and succs == graph[P_key(k)] and not (P_key(k) in D) and P_idx(P_key(k)) == k"),
                ("D-is-processed", "forall(lambda x: (x in D) == ((x in graph) and P_idx(x) < k), Vtx)"),
                ("indeg-keys", "forall(lambda v: (v in indeg) == (v in graph), Vtx)"),
                ("indeg-counts-processed", "forall(lambda v: implies(v in graph, indeg[v] == rem(graph, E0, v) - rem(graph, D, v) + (1 if ((v in succs) and Q_idx(v) < j) else 0)), Vtx)"),
                ("starts-distinct", DISTINCT("starts")), ("indeg-non-negative", "forall(lambda v: implies(v in graph, indeg[v] >= 0), Vtx)"),
                ("starts-are-untouched", "forall(lambda v: (v in starts) == ((v in graph) and indeg[v] == 0), Vtx)"),
                ("E0-empty", "forall(lambda x: not (x in E0), Vtx)"), ("result-empty", "len(result) == 0"),
            ]),
            2: LoopSpec(header="while starts", decreases="len(graph) - len(result)", before=["lemma_card_bound(graph, result)"], invariants=RES + [
                ("result-not-longer-than-graph", "len(result) <= len(graph)"),
                ("indeg-is-remaining", "forall(lambda v: implies(v in graph, indeg[v] == rem(graph, R, v)), Vtx)"),
                STARTS,
            ]),
            3: LoopSpec(header="for node_to in graph[node_from]", index="j", length="nj", seq="Q", invariants=RES + [
                ("current-node", "(node_from in graph) and (node_from in R) and not (node_from in R0) and rem(graph, R0, node_from) == 0 and forall(lambda x: (x in R) == ((x in R0) or x == node_from), Vtx)"),
                ("R0-predecessor-closed", "forall(lambda v, u: implies((v in R0) and (u in graph) and (v in graph[u]), u in R0), Vtx, Vtx)"),
                ("indeg-partly-decremented", "forall(lambda v: implies(v in graph, indeg[v] == rem(graph, R0, v) - (1 if ((v in graph[node_from]) and Q_idx(v) < j) else 0)), Vtx)"),
                STARTS,
            ]),
        },
        after={"for succ in succs": ["D = D | {P_key(k)}"],
               "node_from = starts.popleft()": ["assert (node_from in graph) and not (node_from in R) and rem(graph, R, node_from) == 0 and not (node_from in starts)",
                                                "assert forall(lambda u: implies((u in graph) and (node_from in graph[u]), u in result), Vtx)"],
               "result.append(node_from)": ["R0 = R", "R = R | {node_from}"],
               "for node_to in graph[node_from]": ["lemma_card_bound(graph, result)"]},
        at={"if len(result) == len(graph)": [
            "lemma_card_full(graph, result) if len(result) == len(graph) else None",
            "lemma_stuck_blocks_every_order(graph, R, pi, len(pi)) if (len(result) != len(graph) and is_order(graph, pi)) else None",
            "lemma_card_cover(graph, result) if (len(result) != len(graph) and is_order(graph, pi)) else None",
        ]},
        props=["C19"]))


def _standins(E):
    """The bounded part of C19: the permutation-filter oracle for both routines, and the consistency guard of what the proof assumes."""
    import itertools
    from collections import deque

    from pyvc import native
    from pyvc.driver import Standin
    from standin import c19

    E._c19 = c19.standin()

    class _G(dict):
        __slots__ = ()  # no __dict__: the postconditions are evaluated against the graph as it was on entry

        def __missing__(self, key):  # graph[u] for a non-vertex u is an arbitrary value in the logic; the clauses guard it
            return frozenset()

    def run(tier, rng, src_root):
        top = 3 if tier != "thorough" else 4
        evals = 0
        viol = []
        lemmas = [E.registry.contracts[n] for n in ("lemma_card_full", "lemma_card_cover", "lemma_card_bound")]
        dq = E.registry.contracts["collections:deque"]
        for n in range(0, top + 1):
            verts = [f"v{i}" for i in range(n)]
            pairs = [(a, b) for a in verts for b in verts]
            for mask in range(2 ** len(pairs)):
                if n == top and mask % (7 if tier != "thorough" else 211):
                    continue
                g = _G({v: frozenset(b for i, (a, b) in enumerate(pairs) if a == v and mask >> i & 1) for v in verts})
                u = native.Universe()
                u.domains["Vtx"] = verts + ["outside"]
                u.domains["Int"] = list(range(-1, n + 2))
                u.domains["Map[Vtx, Set[Vtx]]"] = [g]
                u.domains["Set[Vtx]"] = [frozenset(c) for r in range(n + 1) for c in itertools.combinations(verts, r)]
                ns = native.base_namespace(E, u)
                for name, text in E.axiom_texts.items():
                    if not name.startswith("rem/"):
                        continue
                    evals += 1
                    if not eval(native.compile_clause(text), dict(ns)):
                        viol.append((f"assumed axiom {name} is false on a concrete graph", {"graph": {k: sorted(v) for k, v in g.items()}, "axiom": name}))
                # the pigeonhole lemmas on every sequence of at most n + 1 vertices, and deque(dict)
                for ln in range(0, n + 2):
                    for s in itertools.product(verts, repeat=ln):
                        for c in lemmas:
                            env = dict(ns, graph=g, s=list(s))
                            evals += 1
                            if all(eval(native.compile_clause(cl.text), dict(env)) for cl in c.requires) and not all(eval(native.compile_clause(cl.text), dict(env)) for cl in c.ensures):
                                viol.append((f"assumed lemma {c.target} is false on a concrete graph", {"graph": {k: sorted(v) for k, v in g.items()}, "s": list(s)}))
                env = dict(ns, iterable=g, result=list(deque(g)))
                evals += 1
                if not all(eval(native.compile_clause(cl.text), dict(env)) for cl in dq.ensures):
                    viol.append(("assumed contract of deque(dict) is false", {"graph": {k: sorted(v) for k, v in g.items()}}))
                if viol:
                    return dict(evaluations=evals, distinct_nontrivial=evals, violations=viol[:1], samples=[], rule="")
        # the sequence model of deque: popleft / remove(first occurrence) / append, element-wise
        for _ in range(200 if tier != "thorough" else 2000):
            old = [rng.randrange(4) for _ in range(rng.randrange(1, 6))]
            x = rng.choice(old)
            d1, d2 = deque(old), deque(old)
            first = d1.popleft()
            d2.remove(x)
            pos = old.index(x)
            evals += 1
            ok = first == old[0] and list(d1) == old[1:] and len(d2) == len(old) - 1 and all(d2[i] == (old[i] if i < pos else old[i + 1]) for i in range(len(d2)))
            d2.append(7)
            ok = ok and d2[-1] == 7 and len(d2) == len(old)
            if not ok:
                viol.append(("deque does not behave as the sequence model", {"old": old, "x": x}))
                break
        return dict(evaluations=evals, distinct_nontrivial=evals, violations=viol[:1],
                    samples=[{"axiom": k, "text": t} for k, t in E.axiom_texts.items() if k.startswith("rem/")][:2],
                    rule="the four assumed facts about the counting function rem, the two pigeonhole lemmas about len(dict) and the contract of deque(dict) evaluated on every digraph "
                         "on <= 3 vertices (a seventh of them at 3; thorough: all <= 3 and every 211th on 4), every subset D and every vertex sequence of length <= n + 1; deque operations vs the element-wise sequence model on random deques",
                    exhaustive=False)

    E._c19_axioms = Standin("toposort:counting-axioms", run, describe="consistency guard of the assumed counting facts: all digraphs <= 3 (4) vertices")

    # the contract of toposort itself, evaluated at run time on the real function (cross-check of the proof against CPython; concretiser)
    from pyvc.driver import Scope

    def gen(tier, rng):
        top = 3 if tier != "thorough" else 4
        for n in range(0, top + 1):
            pairs = [(a, b) for a in range(n) for b in range(n)]
            for mask in range(2 ** len(pairs)):
                if n == 4 and mask % 11:
                    continue
                edges = [list(p) for i, p in enumerate(pairs) if mask >> i & 1]
                for pi in itertools.permutations(range(n)):
                    yield {"n": n, "edges": edges, "pi": list(pi)}
                if n:
                    yield {"n": n, "edges": edges, "pi": [0] * n}
        for _ in range(100 if tier != "thorough" else 1000):
            n = rng.randrange(4, 8)
            order = list(range(n))
            rng.shuffle(order)
            acyclic = rng.random() < 0.7
            edges = [[i, j] for i in range(n) for j in range(n) if rng.random() < 0.25 and (not acyclic or order.index(i) < order.index(j))]
            pi = list(order) if rng.random() < 0.6 else [rng.randrange(n) for _ in range(n)]
            yield {"n": n, "edges": edges, "pi": pi}

    def build(recipe, src_root):
        mod = native.import_real(M, src_root)
        verts = [f"v{i}" for i in range(recipe["n"])]
        g = _G({v: set() for v in verts})
        for a, b in recipe["edges"]:
            g[verts[a]].add(verts[b])
        u = native.Universe()
        u.domains["Vtx"] = verts + ["outside"]
        u.domains["Int"] = list(range(-1, recipe["n"] + 2))
        return (lambda graph: mod.toposort(graph)), {"graph": g, "pi": [verts[i] for i in recipe["pi"]]}, u

    E.registry.scopes[f"{M}:toposort"] = Scope(
        gen, build, describe="every digraph (self-loops included) on <= 3 vertices (4: every eleventh, thorough) x every permutation as the candidate ordering pi (plus a constant sequence); 100 (1000) random digraphs on 4-7 vertices")


_setup1 = setup


def setup(E):  # noqa: F811
    _setup1(E)
    _standins(E)
