"""Abstract tree theory and contracts for superrec2.utils.trees.LowestCommonAncestor (C17; used by C06, C07, C01-C04)."""
from pyvc.contracts import Contract, LoopSpec

M = "superrec2.utils.trees"
REQUIRES = ["subsequences"]


# ---- native (CPython) reading of the tree vocabulary: parent chains only, independent of the code under test
def n_anc(a, b):
    while b is not None:
        if b is a:
            return True
        b = b.up
    return False


def n_dep(a):
    d = 0
    while a.up is not None:
        a = a.up
        d += 1
    return d


def n_rootof(a):
    while a.up is not None:
        a = a.up
    return a


def n_lca2(a, b):
    chain = []
    x = a
    while x is not None:
        chain.append(x)
        x = x.up
    x = b
    while x is not None:
        if any(x is c for c in chain):
            return x
        x = x.up
    return None


def setup(E):
    E.declare_ref("Node")
    for name, args, ret, nat in [
        ("anc", ["Node", "Node"], "Bool", n_anc),       # a is an ancestor of b (reflexive)
        ("dep", ["Node"], "Int", n_dep),                # number of edges from the root
        ("lca2", ["Node", "Node"], "Node", n_lca2),     # deepest common ancestor
        ("rootof", ["Node"], "Node", n_rootof),
        ("leaf", ["Node"], "Bool", lambda n: n.is_leaf()),
        ("left", ["Node"], "Node", lambda n: n.children[0]),
        ("right", ["Node"], "Node", lambda n: n.children[1]),
        ("binary", ["Node"], "Bool", lambda n: all(len(x.children) in (0, 2) for x in n.traverse())),  # tree rooted here is binary
    ]:
        E.declare_ufun(name, args, ret, native=nat)
    ax = E.axiom
    note = "holds in every finite rooted forest; checked on all concrete trees up to a bound by the self-check"
    ax("tree/anc-refl", "forall(lambda a: anc(a, a), Node)", note)
    ax("tree/anc-antisym", "forall(lambda a, b: implies(anc(a, b) and anc(b, a), a == b), Node, Node)", note)
    ax("tree/anc-trans", "forall(lambda a, b, c: implies(anc(a, b) and anc(b, c), anc(a, c)), Node, Node, Node)", note)
    ax("tree/anc-chain", "forall(lambda a, b, c: implies(anc(a, c) and anc(b, c), anc(a, b) or anc(b, a)), Node, Node, Node)", note)
    ax("tree/root", "forall(lambda a: anc(rootof(a), a) and rootof(rootof(a)) == rootof(a), Node)", note)
    ax("tree/root-anc", "forall(lambda a, b: implies(anc(a, b), rootof(a) == rootof(b)), Node, Node)", note)
    ax("tree/lca-common", "forall(lambda a, b: implies(rootof(a) == rootof(b), anc(lca2(a, b), a) and anc(lca2(a, b), b)), Node, Node)", note)
    ax("tree/lca-deepest", "forall(lambda a, b, c: implies(anc(c, a) and anc(c, b), anc(c, lca2(a, b))), Node, Node, Node)", note)
    ax("tree/dep-nonneg", "forall(lambda a: dep(a) >= 0, Node)", note)
    ax("tree/dep-strict", "forall(lambda a, b: implies(anc(a, b) and a != b, dep(a) < dep(b)), Node, Node)", note)
    # binary trees: the strict descendants of an internal node are partitioned by its two children
    ax("tree/children", """forall(lambda a: implies(binary(rootof(a)) and not leaf(a),
          anc(a, left(a)) and anc(a, right(a)) and left(a) != a and right(a) != a and left(a) != right(a)
          and dep(left(a)) == dep(a) + 1 and dep(right(a)) == dep(a) + 1
          and not anc(left(a), right(a)) and not anc(right(a), left(a))), Node)""", note)
    ax("tree/children-cover", """forall(lambda a, b: implies(binary(rootof(a)) and not leaf(a) and anc(a, b) and a != b,
          anc(left(a), b) or anc(right(a), b)), Node, Node)""", note)
    ax("tree/leaf-bottom", "forall(lambda a, b: implies(leaf(a) and anc(a, b), a == b), Node, Node)", note)

    # axioms whose automatic triggers make E-matching explode: the prover first tries every VC without them (sound)
    E.ctx.heavy_axioms |= {"tree/anc-antisym", "tree/anc-trans", "tree/anc-chain", "tree/lca-common", "tree/lca-deepest",
                           "tree/dep-strict", "tree/children-cover", "tree/leaf-bottom"}
    E.spec("dist", "a: Node, b: Node", "Int", "dep(a) + dep(b) - 2 * dep(lca2(a, b))")

    E.declare_class("LowestCommonAncestor", {"tree": "Node"})
    INTREE = lambda v: f"rootof({v}) == self.tree"
    add = E.registry.add
    # core queries: assumed contracts (Euler tour + sparse table => tree vocabulary), validated by the bounded stand-in
    add(Contract(
        f"{M}:LowestCommonAncestor.__call__", kind="assumed",
        params={"self": "LowestCommonAncestor", "nodes": "Seq[Node]"}, vararg="nodes", returns="Node",
        requires=["len(nodes) >= 1", "forall(lambda i: implies(0 <= i and i < len(nodes), rootof(nodes[i]) == self.tree), Int)"],
        ensures=[
            ("common-ancestor", "forall(lambda i: implies(0 <= i and i < len(nodes), anc(result, nodes[i])), Int)"),
            ("deepest", "forall(lambda c: implies(forall(lambda i: implies(0 <= i and i < len(nodes), anc(c, nodes[i])), Int), anc(c, result)), Node)"),
            ("in-tree", "rootof(result) == self.tree"),
            ("binary-case", "implies(len(nodes) == 2, result == lca2(nodes[0], nodes[1]))"),
            ("unary-case", "implies(len(nodes) == 1, result == nodes[0])"),
        ],
        note="Euler-tour/range-minimum implementation => lowest common ancestor: L2 lemma not proved; bounded validation on all trees <= 7 nodes",
        props=["C17"]))
    add(Contract(
        f"{M}:LowestCommonAncestor.level", kind="assumed",
        params={"self": "LowestCommonAncestor", "node": "Node"}, returns="Int",
        requires=[INTREE("node")], ensures=["result == dep(node)"],
        note="first component of the first tour occurrence = depth: part of the unproved Euler-tour lemma; bounded validation",
        props=["C17"]))
    # derived queries: proved from the real AST against the two contracts above
    add(Contract(
        f"{M}:LowestCommonAncestor.is_ancestor_of",
        params={"self": "LowestCommonAncestor", "first": "Node", "second": "Node"}, returns="Bool",
        requires=[INTREE("first"), INTREE("second")], ensures=["result == anc(first, second)"],
        canary="result == anc(second, first)", props=["C17"]))
    add(Contract(
        f"{M}:LowestCommonAncestor.is_strict_ancestor_of",
        params={"self": "LowestCommonAncestor", "first": "Node", "second": "Node"}, returns="Bool",
        requires=[INTREE("first"), INTREE("second")], ensures=["result == (anc(first, second) and first != second)"],
        canary="result == anc(first, second)", props=["C17"]))
    add(Contract(
        f"{M}:LowestCommonAncestor.is_comparable",
        params={"self": "LowestCommonAncestor", "first": "Node", "second": "Node"}, returns="Bool",
        requires=[INTREE("first"), INTREE("second")], ensures=["result == (anc(first, second) or anc(second, first))"],
        canary="result == anc(first, second)", props=["C17"]))
    add(Contract(
        f"{M}:LowestCommonAncestor.distance",
        params={"self": "LowestCommonAncestor", "first": "Node", "second": "Node"}, returns="Int",
        requires=[INTREE("first"), INTREE("second")],
        ensures=["result == dist(first, second)", "result >= 0"],
        canary="result == dep(first) + dep(second)", props=["C17"]))


# ---------------------------------------------------------------------------- bounded scopes
def ordered_trees(n):
    """All rooted ordered trees with n nodes, as nested tuples of children."""
    if n == 1:
        return [()]
    out = []

    def forests(m):
        if m == 0:
            return [()]
        res = []
        for first in range(1, m + 1):
            for t in ordered_trees(first):
                for rest in forests(m - first):
                    res.append((t,) + rest)
        return res

    return [f for f in forests(n - 1)]


def build_tree(shape, variant=0):
    """variant 0: unique names, unit branch lengths; otherwise pseudo-random repeated / empty names and lengths."""
    import random
    from ete3 import Tree

    nodes = []
    rnd = random.Random(variant)

    def go(sh):
        t = Tree()
        t.name = f"n{len(nodes)}"
        if variant < 0:
            t.name = ""  # unnamed nodes (what ete3 produces for a Newick string without internal names)
        elif variant:
            t.name = rnd.choice(["", "x", "y", t.name])
            t.dist = rnd.choice([0.0, 0.5, 1.0, 2.0, 3.0])
        nodes.append(t)
        for c in sh:
            t.add_child(go(c))
        return t

    root = go(shape)
    return root, nodes


def shape_of(obj):
    return tuple(shape_of(x) for x in obj)


def _scopes(E):
    import itertools
    from pyvc.driver import Scope
    from pyvc import native

    def gen_pairs(tier, rng):
        top = 6 if tier != "thorough" else 7
        for n in range(1, top + 1):
            for sh in ordered_trees(n):
                for a in range(n):
                    for b in range(n):
                        yield {"shape": sh, "first": a, "second": b}
                        if n >= 3 and a != b and (a + 2 * b) % 3 == 0:
                            # an instance built earlier on the subtree of another node (stale shared state would show)
                            yield {"shape": sh, "first": a, "second": b, "prior": [1 + (a + b) % (n - 1)]}
                        if n >= 2 and a != b:
                            yield {"shape": sh, "first": a, "second": b, "variant": -1 if (a + b) % 2 else 1 + (a * 7 + b * 3 + n) % 50}
        for _ in range(20 if tier != "thorough" else 200):
            n = rng.randrange(8, 41)
            par = [None] + [rng.randrange(0, i) for i in range(1, n)]
            kids = {i: [] for i in range(n)}
            for i in range(1, n):
                kids[par[i]].append(i)
            mk = lambda i: tuple(mk(c) for c in kids[i])
            sh = mk(0)
            for _ in range(10):
                yield {"shape": sh, "first": rng.randrange(n), "second": rng.randrange(n)}

    def prior(mod, nodes, recipe):
        """history: other LowestCommonAncestor instances built (and used) earlier in the same process on overlapping nodes"""
        for i in recipe.get("prior", []):
            other = mod.LowestCommonAncestor(nodes[i])
            other(nodes[i], nodes[i])

    def uni(nodes):
        u = native.Universe()
        u.domains["Node"] = nodes
        u.domains["Int"] = list(range(-1, 5))
        return u

    def mk_build(method):
        def build(recipe, src_root):
            mod = native.import_real(M, src_root)
            import types

            root, nodes = build_tree(shape_of(recipe["shape"]), recipe.get("variant", 0))
            prior(mod, nodes, recipe)
            stub = types.SimpleNamespace(tree=root)  # the real object is built inside the checked call
            return (lambda self, first, second: getattr(mod.LowestCommonAncestor(self.tree), method)(first, second)), {"self": stub, "first": nodes[recipe["first"]], "second": nodes[recipe["second"]]}, uni(nodes)
        return build

    d = "all rooted ordered trees with <= 6 (7 thorough) nodes x all ordered node pairs; 20 (200) random trees of 8-40 nodes x 10 pairs"
    for meth in ("is_ancestor_of", "is_strict_ancestor_of", "is_comparable", "distance"):
        E.registry.scopes[f"{M}:LowestCommonAncestor.{meth}"] = Scope(gen_pairs, mk_build(meth), describe=d, nontrivial=lambda r: r["first"] != r["second"])

    def gen_call(tier, rng):
        top = 5 if tier != "thorough" else 7
        for n in range(1, top + 1):
            for sh in ordered_trees(n):
                for k in (1, 2, 3):
                    for idx in itertools.product(range(n), repeat=k):
                        if k == 3 and tier != "thorough" and n > 4:
                            continue
                        yield {"shape": sh, "nodes": list(idx)}
                        if n >= 3 and k == 2 and idx[0] != idx[1]:
                            yield {"shape": sh, "nodes": list(idx), "prior": [1 + sum(idx) % (n - 1)]}
                        if n >= 2 and sum(idx) % 4 == 1:
                            yield {"shape": sh, "nodes": list(idx), "variant": 1 + sum(idx) % 5}

    def build_call(recipe, src_root):
        import types

        mod = native.import_real(M, src_root)
        root, nodes = build_tree(shape_of(recipe["shape"]), recipe.get("variant", 0))
        prior(mod, nodes, recipe)
        stub = types.SimpleNamespace(tree=root)
        return (lambda self, *ns: mod.LowestCommonAncestor(self.tree)(*ns)), {"self": stub, "nodes": [nodes[i] for i in recipe["nodes"]]}, uni(nodes)

    E.registry.scopes[f"{M}:LowestCommonAncestor.__call__"] = Scope(
        gen_call, build_call, describe="all rooted ordered trees with <= 5 (7) nodes x all node tuples of length 1-3; for pairs also after another instance was built on a subtree (history)", nontrivial=lambda r: len(set(r["nodes"])) > 1)

    def gen_level(tier, rng):
        for n in range(1, 7):
            for sh in ordered_trees(n):
                for a in range(n):
                    yield {"shape": sh, "node": a}
                    if n >= 2:
                        yield {"shape": sh, "node": a, "variant": 1 + a % 5}

    def build_level(recipe, src_root):
        import types

        mod = native.import_real(M, src_root)
        root, nodes = build_tree(shape_of(recipe["shape"]), recipe.get("variant", 0))
        stub = types.SimpleNamespace(tree=root)
        return (lambda self, node: mod.LowestCommonAncestor(self.tree).level(node)), {"self": stub, "node": nodes[recipe["node"]]}, uni(nodes)

    E.registry.scopes[f"{M}:LowestCommonAncestor.level"] = Scope(gen_level, build_level, describe="all rooted ordered trees with <= 6 nodes x all nodes")


_setup_contracts = setup


def setup(E):  # noqa: F811
    _setup_contracts(E)
    _scopes(E)


def _axiom_standin(E):
    """Consistency guard: every tree axiom is evaluated natively on concrete forests (a false axiom would prove anything)."""
    from pyvc.driver import Standin
    from pyvc import native

    def run(tier, rng, src_root):
        top = 4 if tier != "thorough" else 5
        shapes = [sh for n in range(1, top + 1) for sh in ordered_trees(n)]
        evals = 0
        viol = []
        for i, s1 in enumerate(shapes):
            for s2 in shapes[: (3 if tier != "thorough" else 8)]:
                r1, n1 = build_tree(s1)
                r2, n2 = build_tree(s2)
                u = native.Universe()
                u.domains["Node"] = n1 + n2
                u.domains["Int"] = [0, 1]
                ns = native.base_namespace(E, u)
                for name, text in E.axiom_texts.items():
                    if not name.startswith("tree/"):
                        continue
                    evals += 1
                    if not eval(native.compile_clause(text), dict(ns)):
                        viol.append((f"axiom {name} is false on a concrete forest", {"shapes": [s1, s2], "axiom": name}))
                        return dict(evaluations=evals, distinct_nontrivial=evals, violations=viol, samples=[], rule="")
        return dict(evaluations=evals, distinct_nontrivial=evals, violations=viol,
                    samples=[{"axiom": n, "text": t} for n, t in list(E.axiom_texts.items())[:2]],
                    rule="each first-order tree axiom evaluated over all nodes of every two-tree forest of rooted ordered trees with <= 4 (5) nodes",
                    exhaustive=True)

    E._tree_axiom_standin = Standin("trees:axioms-hold-on-concrete-forests", run, describe="forests of two rooted ordered trees, <= 4 (5 thorough) nodes each")


_setup3 = setup


def setup(E):  # noqa: F811
    _setup3(E)
    _axiom_standin(E)


def _traversal_theory(E):
    """Assumed contract of ete3 TreeNode.traverse(strategy) and .up, in the tree vocabulary."""
    def order_of(strategy):
        def nth(r, i):
            return list(r.traverse(strategy))[i]

        def idx(r, n):
            for i, x in enumerate(r.traverse(strategy)):
                if x is n:
                    return i
            return -1
        return nth, idx

    E.declare_ufun("size", ["Node"], "Int", native=lambda r: sum(1 for _ in r.traverse()))
    E.declare_ufun("up", ["Node"], "Node", native=lambda n: n.up)
    note = "assumed contract of ete3 traverse(); conformance-tested on concrete trees by the axiom stand-in"
    for pref, strategy in (("pre", "preorder"), ("post", "postorder"), ("lvl", "levelorder")):
        nth, idx = order_of(strategy)
        E.declare_ufun(f"{pref}_nth", ["Node", "Int"], "Node", native=nth)
        E.declare_ufun(f"{pref}_idx", ["Node", "Node"], "Int", native=idx)
        K = [f"{pref}_nth", f"{pref}_idx"]
        E.axiom(f"tree/{pref}-in-subtree", f"forall(lambda r, i: implies(0 <= i and i < size(r), anc(r, {pref}_nth(r, i)) and {pref}_idx(r, {pref}_nth(r, i)) == i), Node, Int, pat=[{pref}_nth(r, i)])", note, keys=K)
        E.axiom(f"tree/{pref}-covers", f"forall(lambda r, n: implies(anc(r, n), 0 <= {pref}_idx(r, n) and {pref}_idx(r, n) < size(r) and {pref}_nth(r, {pref}_idx(r, n)) == n), Node, Node, pat=[{pref}_idx(r, n)])", note, keys=K)
    E.axiom("tree/size-pos", "forall(lambda r: size(r) >= 1, Node)", note, keys=["size"])
    E.axiom("tree/pre-parent-first", "forall(lambda r, a, b: implies(anc(r, a) and anc(a, b) and a != b, pre_idx(r, a) < pre_idx(r, b)), Node, Node, Node)", note, keys=["pre_idx", "pre_nth"])
    E.axiom("tree/lvl-parent-first", "forall(lambda r, a, b: implies(anc(r, a) and anc(a, b) and a != b, lvl_idx(r, a) < lvl_idx(r, b)), Node, Node, Node)", note, keys=["lvl_idx", "lvl_nth"])
    E.axiom("tree/post-children-first", "forall(lambda r, a, b: implies(anc(r, a) and anc(a, b) and a != b, post_idx(r, b) < post_idx(r, a)), Node, Node, Node)", note, keys=["post_idx", "post_nth"])
    E.ctx.heavy_axioms |= {"tree/pre-parent-first", "tree/lvl-parent-first", "tree/post-children-first"}
    E.axiom("tree/up", """forall(lambda n: implies(n != rootof(n) and binary(rootof(n)),
          anc(up(n), n) and up(n) != n and not leaf(up(n)) and (left(up(n)) == n or right(up(n)) == n)), Node)""", note, keys=["up"])
    E.axiom("tree/up-of-child", "forall(lambda a: implies(binary(rootof(a)) and not leaf(a), up(left(a)) == a and up(right(a)) == a), Node)", note, keys=["up"])


_setup4 = setup


def setup(E):  # noqa: F811
    _traversal_theory_done = False
    _setup4(E)


_orig_setup_contracts = _setup_contracts


def _setup_contracts(E):  # noqa: F811  (the traversal theory must exist before the axiom stand-in is built)
    _orig_setup_contracts(E)
    _traversal_theory(E)
