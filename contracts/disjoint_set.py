"""Contracts for superrec2.utils.disjoint_set (property C20, union-find part)."""
from pyvc.contracts import Contract, LoopSpec

M = "superrec2.utils.disjoint_set"
REQUIRES = ["subsequences"]


def setup(E):
    # g_rep: ghost map element -> canonical representative of its class
    E.declare_class("DisjointSet", {"parent": "Arr[Int]", "rank": "Arr[Int]", "groups": "Int", "g_rep": "Arr[Int]"})
    E.spec("relabel", "a: Arr[Int], x: Int, y: Int", "Arr[Int]", None)
    E.axiom("relabel/len", "forall(lambda a, x, y: len(relabel(a, x, y)) == len(a), Arr[Int], Int, Int)", "definition of the ghost relabelling")
    E.axiom("relabel/get", "forall(lambda a, x, y, i: relabel(a, x, y)[i] == (y if a[i] == x else a[i]), Arr[Int], Int, Int, Int)", "definition of the ghost relabelling")
    WF = [
        ("sizes", "len(self.parent) == len(self.g_rep) and len(self.rank) == len(self.g_rep)"),
        ("parent-in-range", "forall(lambda i: implies(0 <= i and i < len(self.g_rep), 0 <= self.parent[i] and self.parent[i] < len(self.g_rep)), Int)"),
        ("rep-in-range", "forall(lambda i: implies(0 <= i and i < len(self.g_rep), 0 <= self.g_rep[i] and self.g_rep[i] < len(self.g_rep)), Int)"),
        ("rep-of-parent", "forall(lambda i: implies(0 <= i and i < len(self.g_rep), self.g_rep[self.parent[i]] == self.g_rep[i]), Int)"),
        ("root-is-own-rep", "forall(lambda i: implies(0 <= i and i < len(self.g_rep) and self.parent[i] == i, self.g_rep[i] == i), Int)"),
        ("rep-is-root", "forall(lambda i: implies(0 <= i and i < len(self.g_rep), self.parent[self.g_rep[i]] == self.g_rep[i]), Int)"),
        ("rank-grows-to-rep", "forall(lambda i: implies(0 <= i and i < len(self.g_rep) and self.g_rep[i] != i, self.rank[i] < self.rank[self.g_rep[i]]), Int)"),
        ("rank-grows-to-parent", "forall(lambda i: implies(0 <= i and i < len(self.g_rep) and self.parent[i] != i, self.rank[i] < self.rank[self.parent[i]]), Int)"),
    ]
    E._ds_wf = WF
    add = E.registry.add
    add(Contract(
        f"{M}:DisjointSet.__init__", params={"self": "DisjointSet", "count": "Int"},
        requires=["count >= 0"],
        ensures=WF + [("singletons", "len(self.g_rep) == count and forall(lambda i: implies(0 <= i and i < count, self.g_rep[i] == i), Int)"),
                      ("groups", "self.groups == count")],
        modifies=["self.*"], prologue=["self.g_rep = list(range(count))"],
        canary="self.groups == 0", props=["C20"]))
    add(Contract(
        f"{M}:DisjointSet.find", params={"self": "DisjointSet", "element": "Int"}, returns="Int",
        requires=WF + ["0 <= element", "element < len(self.g_rep)"],
        ensures=WF + [("returns-representative", "result == self.g_rep[element]"),
                      ("partition-unchanged", "self.g_rep == old(self.g_rep)"),
                      ("rank-groups-unchanged", "self.rank == old(self.rank) and self.groups == old(self.groups)")],
        modifies=["self.parent"],
        decreases="self.rank[self.g_rep[element]] - self.rank[element]",
        canary="result != old(self.g_rep)[element]", props=["C20"]))
    SAME = "old(self.g_rep)[{a}] == old(self.g_rep)[{b}]"
    add(Contract(
        f"{M}:DisjointSet.unite", params={"self": "DisjointSet", "first": "Int", "second": "Int"}, returns="Bool",
        requires=WF + ["0 <= first", "first < len(self.g_rep)", "0 <= second", "second < len(self.g_rep)"],
        ensures=WF + [
            ("reports-merge", f"result == (not ({SAME.format(a='first', b='second')}))"),
            ("size-unchanged", "len(self.g_rep) == len(old(self.g_rep))"),
            ("merges-exactly-the-two-classes", f"""forall(lambda i, j: implies(0 <= i and i < len(self.g_rep) and 0 <= j and j < len(self.g_rep),
                 (self.g_rep[i] == self.g_rep[j]) == ({SAME.format(a='i', b='j')}
                      or ({SAME.format(a='i', b='first')} and {SAME.format(a='j', b='second')})
                      or ({SAME.format(a='i', b='second')} and {SAME.format(a='j', b='first')}))), Int, Int)"""),
            ("group-count", "self.groups == old(self.groups) - (1 if result else 0)"),
        ],
        modifies=["self.parent", "self.rank", "self.groups", "self.g_rep"],
        at={
            "self.rank[rep_first] += 1": ["self.g_rep = relabel(self.g_rep, rep_second, rep_first)"],
            "self.parent[rep_second] = rep_first": ["self.g_rep = relabel(self.g_rep, rep_second, rep_first) if self.rank[rep_first] > self.rank[rep_second] and self.g_rep[rep_second] == rep_second else self.g_rep"],
            "self.parent[rep_first] = rep_second": ["self.g_rep = relabel(self.g_rep, rep_first, rep_second)"],
        },
        canary="self.groups == old(self.groups) + 1", props=["C20"]))
    add(Contract(
        f"{M}:DisjointSet.__len__", params={"self": "DisjointSet"}, returns="Int",
        ensures=["result == self.groups"], props=["C20"]))


def _to_list(E):
    """to_list reports exactly the classes of the partition: every element once, each group inside one class, no class split."""
    add = E.registry.add
    WF = E._ds_wf
    N = "len(self.g_rep)"
    KEEP = [("partition-unchanged", "self.g_rep == old(self.g_rep)"), ("rank-groups-unchanged", "self.rank == old(self.rank) and self.groups == old(self.groups)")]
    add(Contract(
        f"{M}:DisjointSet.to_list", params={"self": "DisjointSet"}, returns="Arr[Seq[Int]]",
        requires=WF + [("list-length-non-negative", "len(self.g_rep) >= 0")],
        ensures=WF + KEEP + [
            ("groups-non-empty", "forall(lambda j: implies(0 <= j and j < len(result), len(result[j]) >= 1), Int)"),
            ("members-are-elements", f"forall(lambda j, a: implies(0 <= j and j < len(result) and 0 <= a and a < len(result[j]), 0 <= result[j][a] and result[j][a] < {N}), Int, Int)"),
            ("members-listed-once", "forall(lambda j, a, b: implies(0 <= j and j < len(result) and 0 <= a and a < b and b < len(result[j]), result[j][a] < result[j][b]), Int, Int, Int)"),
            ("group-within-one-class", "forall(lambda j, a: implies(0 <= j and j < len(result) and 0 <= a and a < len(result[j]), self.g_rep[result[j][a]] == self.g_rep[result[j][0]]), Int, Int)"),
            ("classes-not-split", "forall(lambda j1, j2: implies(0 <= j1 and j1 < j2 and j2 < len(result), self.g_rep[result[j1][0]] != self.g_rep[result[j2][0]]), Int, Int)"),
            ("every-element-listed", f"forall(lambda x: implies(0 <= x and x < {N}, exists(lambda j: 0 <= j and j < len(result) and (x in result[j]), Int)), Int)"),
        ],
        modifies=["self.parent"],
        locals={"result": "Arr[Seq[Int]]"},
        loops={0: LoopSpec(header="for i in range(len(self.parent))", index="k", length="n", invariants=WF + KEEP + [
            ("buckets", f"len(result) == {N} and n == {N}"),
            ("bucket-members", f"forall(lambda r, a: implies(0 <= r and r < {N} and 0 <= a and a < len(result[r]), 0 <= result[r][a] and result[r][a] < k and self.g_rep[result[r][a]] == r), Int, Int)"),
            ("bucket-increasing", f"forall(lambda r, a, b: implies(0 <= r and r < {N} and 0 <= a and a < b and b < len(result[r]), result[r][a] < result[r][b]), Int, Int, Int)"),
            ("seen-are-listed", "forall(lambda x: implies(0 <= x and x < k, x in result[self.g_rep[x]]), Int)"),
        ])},
        props=["C20"]))


    # the same contract evaluated at run time on the real method (cross-check of the proof against CPython; concretiser)
    import itertools
    from pyvc.driver import Scope
    from pyvc import native

    def gen(tier, rng):
        top = 4 if tier != "thorough" else 5
        for n in range(0, top + 1):
            pairs = [[a, b] for a in range(n) for b in range(n)]
            for r in range(0, 3 if tier != "thorough" else 4):
                for us in itertools.product(pairs, repeat=r):
                    yield {"n": n, "unions": [list(u) for u in us]}
        for _ in range(200 if tier != "thorough" else 2000):
            n = rng.randrange(1, 13)
            yield {"n": n, "unions": [[rng.randrange(n), rng.randrange(n)] for _ in range(rng.randrange(0, 12))]}
        # tournament histories that unite current ROOTS only (no path compression on the way), in both argument orders: the only way to
        # reach parent chains of depth >= 3 before to_list is called
        for _ in range(150 if tier != "thorough" else 1500):
            n = rng.choice([8, 9, 9, 12, 16, 17])
            roots = list(range(n))
            rng.shuffle(roots)
            rank = {r: 0 for r in roots}
            unions = []
            stop_at = rng.choice([1, 1, 2, 3])
            while len(roots) > stop_at and len(roots) > 1:
                nxt = []
                for a, b in zip(roots[0::2], roots[1::2]):
                    if rng.random() < 0.5:
                        a, b = b, a
                    unions.append([a, b])
                    if rank[a] == rank[b]:
                        rank[a] += 1
                        nxt.append(a)
                    else:
                        nxt.append(a if rank[a] > rank[b] else b)
                if len(roots) % 2:
                    nxt.append(roots[-1])
                rng.shuffle(nxt)
                roots = nxt
            yield {"n": n, "unions": unions}

    def build(recipe, src_root):
        mod = native.import_real(M, src_root)
        ds = mod.DisjointSet(recipe["n"])
        for a, b in recipe["unions"]:
            ds.unite(a, b)

        def root(i):
            while ds.parent[i] != i:
                i = ds.parent[i]
            return i

        ds.g_rep = [root(i) for i in range(recipe["n"])]  # ghost field of the contract
        u = native.Universe()
        u.domains["Int"] = list(range(-1, recipe["n"] + 2))
        return (lambda self: self.to_list()), {"self": ds}, u

    E.registry.scopes[f"{M}:DisjointSet.to_list"] = Scope(
        gen, build, describe="all union histories of length <= 2 (3 thorough) on <= 4 (5) elements, 200 (2000) random histories on <= 12 elements, 150 (1500) root-only tournament histories on 8-17 elements (parent chains of depth >= 3, both argument orders)")


_setup_contracts0 = setup


def setup(E):  # noqa: F811
    _setup_contracts0(E)
    _to_list(E)


_setup_contracts = setup


def setup(E):  # noqa: F811
    _setup_contracts(E)
    from standin import c20

    E._c20_triples = c20.triples_standin()
    E._c20_ds = c20.ds_standin()
