"""Contracts for the THL table step functions of superrec2.compute.reconciliation (C01, C05).

Bellman postconditions taken from the documented event model (not from the code): after the call the cell (root_node, root_species)
holds the optimum of its old content and of every child placement of the given event kinds, and under ALL exactly the optimal
placements / under ANY one of them; no other cell changes.

The dynamic-programming table is used through ASSUMED contracts over an abstract state (a partial map from key pairs to (value, tags)):
`table[k0][k1].m(...)` is desugared to `Table.cell2_m(table, k0, k1, ...)` - the proxy objects are pure views that re-resolve the
address on every call - and the behaviour stated here is what the bounded stand-in `dynamic_programming:Table-proxies` validates.
"""
from pyvc.contracts import Contract, LoopSpec
from pyvc.values import UFun
from pyvc.types import PT, Ref

M = "superrec2.compute.reconciliation"
DP = "superrec2.utils.dynamic_programming"
REQUIRES = ["compute_reconciliation"]


def setup(E):
    add = E.registry.add
    G = {"inf": E.globals["inf"]}
    E.view_classes = set(getattr(E, "view_classes", ())) | {"Table"}

    # ---- info tags: species nodes (aggregator entries) and MappingInfo pairs (table cells) are injected into the one tag sort
    E.declare_ufun("tag_of_node", ["Node"], "Tag")
    E.declare_ufun("node_of_tag", ["Tag"], "Node")
    E.declare_ufun("mi", ["Node", "Node"], "Tag")
    E.declare_ufun("mi_left", ["Tag"], "Node")
    E.declare_ufun("mi_right", ["Tag"], "Node")
    note = "info tags are Python objects of different classes held in one generic container: modelled as injections into one uninterpreted sort; TreeNode and non-empty NamedTuple are truthy"
    E.axiom("tag/node-injection", "forall(lambda n: node_of_tag(tag_of_node(n)) == n and tag_truthy(tag_of_node(n)), Node)", note, keys=["tag_of_node", "node_of_tag"])
    E.axiom("tag/mapping-info-injection", "forall(lambda a, b: mi_left(mi(a, b)) == a and mi_right(mi(a, b)) == b and tag_truthy(mi(a, b)), Node, Node)", note, keys=["mi", "mi_left", "mi_right"])
    E.ops.ref_coercions[("Node", "Tag")] = "tag_of_node"
    E.ops.ref_coercions[("Tag", "Node")] = "node_of_tag"
    E.globals["MappingInfo"] = UFun("mi", [Ref("Node"), Ref("Node")], Ref("Tag"))
    E.declare_ref_attr("Tag", "left", "mi_left")
    E.declare_ref_attr("Tag", "right", "mi_right")

    # ---- abstract table of rank 2
    E.declare_class("Table", {
        "merge_policy": "MergePolicy", "retention_policy": "RetentionPolicy",
        "g_val": "Map[Tup[Node, Node], Ext]", "g_tags": "Map[Tup[Node, Node], Set[Tag]]"})
    # an unwritten cell reads as infinitely bad with no tags
    E.spec("cellv", "gv: Map[Tup[Node, Node], Ext], u: Node, s: Node", "Ext", "gv[(u, s)] if (u, s) in gv else inf")
    E.spec("cellt", "gv: Map[Tup[Node, Node], Ext], gt: Map[Tup[Node, Node], Set[Tag]], u: Node, s: Node, t: Tag", "Bool",
           "((u, s) in gv) and is_fin(gv[(u, s)]) and (t in gt[(u, s)])")

    V1 = "cellv(self.g_val, k0, k1)"
    V0 = "cellv(old(self.g_val), k0, k1)"
    T1 = "cellt(self.g_val, self.g_tags, k0, k1, t)"
    T0 = "cellt(old(self.g_val), old(self.g_tags), k0, k1, t)"
    HIT = "exists(lambda i: 0 <= i and i < len(candidates) and candidates[i].value == {V1} and is_fin(candidates[i].value) and candidates[i].info == t and tag_truthy(t), Int)".replace("{V1}", V1)
    RHS = f"(({T0} and {V0} == {V1}) or {HIT})"
    FRAME = ("frame", """forall(lambda a, b: implies(a != k0 or b != k1,
                 cellv(self.g_val, a, b) == cellv(old(self.g_val), a, b)
                 and forall(lambda t: cellt(self.g_val, self.g_tags, a, b, t) == cellt(old(self.g_val), old(self.g_tags), a, b, t), Tag)), Node, Node)""")
    PROXY_NOTE = ("Table / TableProxy / EntryProxy seen as a partial map from key pairs to (value, tags): unwritten cell = (inf, {}), "
                  "update creates the cell iff some candidate is finite and then behaves as Entry.update; ASSUMED, validated only by the bounded Table-proxies stand-in")
    add(Contract(f"{DP}:Table.cell2_value", kind="assumed", params={"self": "Table", "k0": "Node", "k1": "Node"}, returns="Ext",
                 ensures=[f"result == {V1}"], globals=G, note=PROXY_NOTE, props=["C16"]))
    add(Contract(f"{DP}:Table.cell2_is_infinite", kind="assumed", params={"self": "Table", "k0": "Node", "k1": "Node"}, returns="Bool",
                 ensures=[f"result == (not is_fin({V1}))"], globals=G, note=PROXY_NOTE, props=["C16"]))
    add(Contract(f"{DP}:Table.cell2_infos", kind="assumed", params={"self": "Table", "k0": "Node", "k1": "Node"}, returns="Set[Tag]",
                 ensures=[f"forall(lambda t: (t in result) == {T1}, Tag)"], globals=G, note=PROXY_NOTE, props=["C16"]))
    UPD = [
        ("value-not-worse-than-old", f"not ({V0} < {V1})"),
        ("value-not-worse-than-any-candidate", f"forall(lambda i: implies(0 <= i and i < len(candidates), not (candidates[i].value < {V1})), Int)"),
        ("value-is-attained", f"{V1} == {V0} or exists(lambda i: 0 <= i and i < len(candidates) and candidates[i].value == {V1}, Int)"),
        ("tags-all", f"implies(self.retention_policy == RetentionPolicy.ALL, forall(lambda t: {T1} == {RHS}, Tag))"),
        ("tags-any-sound", f"implies(self.retention_policy == RetentionPolicy.ANY, forall(lambda t: implies({T1}, {RHS}), Tag))"),
        ("tags-any-nonempty", f"implies(self.retention_policy == RetentionPolicy.ANY and exists(lambda t: {RHS}, Tag), exists(lambda t: {T1}, Tag))"),
        ("tags-any-single", f"implies(self.retention_policy == RetentionPolicy.ANY, forall(lambda t, t2: implies({T1} and {T1.replace(', t)', ', t2)')}, t == t2), Tag, Tag))"),
        ("tags-none", f"implies(self.retention_policy == RetentionPolicy.NONE, forall(lambda t: not {T1}, Tag))"),
        FRAME,
    ]
    add(Contract(f"{DP}:Table.cell2_update", kind="assumed",
                 params={"self": "Table", "k0": "Node", "k1": "Node", "candidates": "Seq[Candidate]"}, vararg="candidates",
                 requires=["self.merge_policy == MergePolicy.MIN"],
                 ensures=UPD, modifies=["self.g_val", "self.g_tags"], globals=G, note=PROXY_NOTE, props=["C16"]))
    add(Contract(f"{DP}:Table.cell2_set", kind="assumed",
                 params={"self": "Table", "k0": "Node", "k1": "Node", "candidates": "Seq[Candidate]"}, vararg="candidates",
                 requires=["self.merge_policy == MergePolicy.MIN", "len(candidates) == 1"],
                 ensures=UPD, modifies=["self.g_val", "self.g_tags"], globals=G, note=PROXY_NOTE + " (table[k0][k1] = candidate is update(candidate))", props=["C16"]))
    # Table.entry(): proved from the real AST against the Entry.__init__ contracts
    add(Contract(f"{DP}:Table.entry", params={"self": "Table", "value": "NoneT", "infos": "NoneT"}, returns="Entry", defaults={"value": None, "infos": None},
                 ensures=["result._value == worst(self.merge_policy)", "forall(lambda t: not (t in result._infos), Tag)",
                          "result._merge_policy == self.merge_policy", "result._retention_policy == self.retention_policy"],
                 globals=G, props=["C16", "C01"]))

    # ---- the documented recurrence
    # value of placing child c of the node at species x below s: sub-cost + one full loss per skipped species edge
    E.spec("place_spe", "gv: Map[Tup[Node, Node], Ext], fl: Ext, s: Node, c: Node, x: Node", "Ext", "cellv(gv, c, x) + fl * (dist(s, x) - 1)")
    E.spec("place_dup", "gv: Map[Tup[Node, Node], Ext], fl: Ext, s: Node, c: Node, x: Node", "Ext", "cellv(gv, c, x) + fl * dist(s, x)")

    WFE = lambda e: [
        (f"{e}/policies", f"{e}._merge_policy == MergePolicy.MIN and {e}._retention_policy == table.retention_policy"),
        (f"{e}/wf-any", f"implies({e}._retention_policy == RetentionPolicy.ANY, forall(lambda t, t2: implies(t in {e}._infos and t2 in {e}._infos, t == t2), Tag, Tag))"),
        (f"{e}/wf-truthy", f"forall(lambda t: implies(t in {e}._infos, tag_truthy(t)), Tag)"),
    ]

    def AGG(e, R, place, c, k):
        """entry e aggregates  x |-> place(x)  (tag x) over the first k nodes of the level-order enumeration of the subtree of R.
        Tag clauses are stated without existentials: a retained tag t is the tag of the node node_of_tag(t) (sound), and every
        optimal node's tag is retained under ALL (complete)."""
        F = lambda x: f"{place}(table.g_val, loss_cost, root_species, {c}, {x})"
        IN = lambda x: f"(anc({R}, {x}) and lvl_idx({R}, {x}) < {k})"
        W = "node_of_tag(t)"
        return WFE(e) + [
            (f"{e}/lower", f"forall(lambda x: implies({IN('x')}, not ({F('x')} < {e}._value)), Node)"),
            (f"{e}/attained", f"{e}._value == inf or exists(lambda x: {IN('x')} and {F('x')} == {e}._value, Node)"),
            (f"{e}/tags-sound", f"forall(lambda t: implies(t in {e}._infos, {IN(W)} and {F(W)} == {e}._value and t == tag_of_node({W})), Tag)"),
            (f"{e}/tags-all-complete", f"implies(table.retention_policy == RetentionPolicy.ALL, forall(lambda x: implies({IN('x')} and {F('x')} == {e}._value, tag_of_node(x) in {e}._infos), Node))"),
            (f"{e}/nonempty", f"implies({k} > 0, exists(lambda t: t in {e}._infos, Tag))"),
        ]

    PRE = [
        ("species-tree", "binary(species_lca.tree) and rootof(species_lca.tree) == species_lca.tree and rootof(root_species) == species_lca.tree"),
        ("object-node", "binary(rootof(root_node)) and not leaf(root_node)"),
        ("costs-present", "Event.SPECIATION in costs and Event.DUPLICATION in costs and Event.HORIZONTAL_TRANSFER in costs and Event.FULL_LOSS in costs"),
        ("costs", "is_fin(costs[Event.SPECIATION]) and is_fin(costs[Event.DUPLICATION]) and is_fin(costs[Event.FULL_LOSS]) and costs[Event.SPECIATION] >= 0 and costs[Event.DUPLICATION] >= 0 and costs[Event.HORIZONTAL_TRANSFER] >= 0 and costs[Event.FULL_LOSS] >= 0"),
        ("table-policies", "table.merge_policy == MergePolicy.MIN and table.retention_policy != RetentionPolicy.NONE"),
        ("table-no-neg-inf", "forall(lambda a, b: cellv(table.g_val, a, b) != -inf, Node, Node)"),
    ]
    GV0, GT0 = "old(table.g_val)", "old(table.g_tags)"
    U, S = "root_node", "root_species"
    NEWV, OLDV = f"cellv(table.g_val, {U}, {S})", f"cellv({GV0}, {U}, {S})"
    NEWT, OLDT = f"cellt(table.g_val, table.g_tags, {U}, {S}, t)", f"cellt({GV0}, {GT0}, {U}, {S}, t)"
    FRAME_T = ("frame", f"""forall(lambda a, b: implies(a != {U} or b != {S},
                  cellv(table.g_val, a, b) == cellv({GV0}, a, b)
                  and forall(lambda t: cellt(table.g_val, table.g_tags, a, b, t) == cellt({GV0}, {GT0}, a, b, t), Tag)), Node, Node)""")

    def bellman(TERM, PLACED):
        """postcondition clauses for candidates  (x, y) |-> TERM(x, y)  over the placements PLACED(x, y)"""
        INTREE = lambda x, y: f"rootof({x}) == species_lca.tree and rootof({y}) == species_lca.tree"
        WX, WY = "mi_left(t)", "mi_right(t)"
        NEW_OF = lambda x, y: f"({INTREE(x, y)} and {PLACED(x, y)} and {TERM(x, y)} == {NEWV} and is_fin({NEWV}))"
        return [
            ("bellman/not-worse-than-old", f"not ({OLDV} < {NEWV})"),
            ("bellman/lower-bound", f"forall(lambda x, y: implies({INTREE('x', 'y')} and {PLACED('x', 'y')}, not ({TERM('x', 'y')} < {NEWV})), Node, Node)"),
            ("bellman/attained", f"{NEWV} == {OLDV} or exists(lambda x, y: {INTREE('x', 'y')} and {PLACED('x', 'y')} and {TERM('x', 'y')} == {NEWV}, Node, Node)"),
            # every retained placement is optimal: it was retained before and the value did not improve, or it is the tag mi(x, y) of an optimal placement
            ("bellman/tags-sound", f"forall(lambda t: implies({NEWT}, ({OLDT} and {OLDV} == {NEWV}) or ({NEW_OF(WX, WY)} and t == mi({WX}, {WY}))), Tag)"),
            # ALL: every optimal placement is retained, and so is every earlier tag when the value did not improve
            ("bellman/tags-all-complete-new", f"implies(table.retention_policy == RetentionPolicy.ALL, forall(lambda x, y: implies({NEW_OF('x', 'y')}, {NEWT.replace(', t)', ', mi(x, y))')}), Node, Node))"),
            ("bellman/tags-all-complete-old", f"implies(table.retention_policy == RetentionPolicy.ALL, forall(lambda t: implies({OLDT} and {OLDV} == {NEWV}, {NEWT}), Tag))"),
            ("bellman/tags-any-nonempty", f"""implies(table.retention_policy == RetentionPolicy.ANY and (exists(lambda t: {OLDT} and {OLDV} == {NEWV}, Tag)
                   or exists(lambda x, y: {NEW_OF('x', 'y')}, Node, Node)), exists(lambda t: {NEWT}, Tag))"""),
            ("bellman/tags-any-single", f"implies(table.retention_policy == RetentionPolicy.ANY, forall(lambda t, t2: implies({NEWT} and {NEWT.replace(', t)', ', t2)')}, t == t2), Tag, Tag))"),
            FRAME_T,
            ("no-neg-inf", "forall(lambda a, b: cellv(table.g_val, a, b) != -inf, Node, Node)"),
        ]

    LS, RS = f"left({S})", f"right({S})"
    L, R = f"left({U})", f"right({U})"
    SPE_TERM = lambda x, y: (f"(costs[Event.SPECIATION] + place_spe({GV0}, costs[Event.FULL_LOSS], {S}, {L}, {x}) "
                             f"+ place_spe({GV0}, costs[Event.FULL_LOSS], {S}, {R}, {y}))")
    SPE_PLACED = lambda x, y: f"((anc({LS}, {x}) and anc({RS}, {y})) or (anc({RS}, {x}) and anc({LS}, {y})))"
    PARAMS = {"species_lca": "LowestCommonAncestor", "root_species": "Node", "root_node": "Node", "table": "Table", "costs": "Map[Event, Ext]"}
    ENTRIES = {"min_ltl": "Entry", "min_rtl": "Entry", "min_ltr": "Entry", "min_rtr": "Entry"}
    STABLE = ["table.g_val == old(table.g_val) and table.g_tags == old(table.g_tags)",
              "left_species == left(root_species) and right_species == right(root_species) and left_node == left(root_node) and right_node == right(root_node)",
              "spe_cost == costs[Event.SPECIATION] and loss_cost == costs[Event.FULL_LOSS]"]
    def pair_cuts(star, e1, R1, c1, e2, R2, c2, place, cost):
        P1 = lambda x: f"{place}(table.g_val, loss_cost, root_species, {c1}, {x})"
        P2 = lambda y: f"{place}(table.g_val, loss_cost, root_species, {c2}, {y})"
        OPT = lambda x, y: f"(anc({R1}, {x}) and anc({R2}, {y}) and {P1(x)} == {e1}._value and {P2(y)} == {e2}._value)"
        return f"""
assert {star}._value == {cost} + {e1}._value + {e2}._value
assert exists(lambda t: t in {star}._infos, Tag)
assert forall(lambda t: implies(t in {star}._infos, {OPT('mi_left(t)', 'mi_right(t)')} and t == mi(mi_left(t), mi_right(t))), Tag)
assert implies(table.retention_policy == RetentionPolicy.ALL, forall(lambda x, y: implies({OPT('x', 'y')}, mi(x, y) in {star}._infos), Node, Node))
"""

    def end_cuts(TERM, stars, place):
        """cuts after the cell update: the new value is bounded by both combined entries and, when it changed, equals one of them;
        an optimal placement realises the optimum of both aggregators; a retained tag is old or comes from one of the combined entries"""
        out = []
        for star, e1, R1, c1, e2, R2, c2 in stars:
            P1 = lambda x: f"{place}({GV0}, costs[Event.FULL_LOSS], root_species, {c1}, {x})"
            P2 = lambda y: f"{place}({GV0}, costs[Event.FULL_LOSS], root_species, {c2}, {y})"
            out.append(f"assert not ({star}._value < {NEWV})")
            out.append(f"""assert forall(lambda x, y: implies(anc({R1}, x) and anc({R2}, y) and {TERM('x', 'y')} == {NEWV} and is_fin({NEWV}),
                               {P1('x')} == {e1}._value and {P2('y')} == {e2}._value and {star}._value == {NEWV}), Node, Node)""")
        for star, e1, R1, c1, e2, R2, c2 in stars:
            out.append(f"assert implies(table.retention_policy == RetentionPolicy.ALL, forall(lambda t: implies(t in {star}._infos and {star}._value == {NEWV} and is_fin({NEWV}), {NEWT}), Tag))")
        names = [s[0] for s in stars]
        out.append(f"assert {NEWV} == {OLDV} or " + " or ".join(f"{NEWV} == {n}._value" for n in names))
        srcs = " or ".join(f"(t in {n}._infos and {n}._value == {NEWV} and is_fin({NEWV}))" for n in names)
        out.append(f"assert forall(lambda t: implies({NEWT}, ({OLDT} and {OLDV} == {NEWV}) or {srcs}), Tag)")
        return "\n".join(" ".join(x.split()) for x in out) + "\n"

    SEQ_CUTS = """
assert exists(lambda i: 0 <= i and i < len(arg_candidates) and arg_candidates[i].value == star0._value and arg_candidates[i].info is not None and the(arg_candidates[i].info) in star0._infos, Int)
assert exists(lambda i: 0 <= i and i < len(arg_candidates) and arg_candidates[i].value == star1._value and arg_candidates[i].info is not None and the(arg_candidates[i].info) in star1._infos, Int)
assert forall(lambda i: implies(0 <= i and i < len(arg_candidates), arg_candidates[i].info is not None and ((arg_candidates[i].value == star0._value and the(arg_candidates[i].info) in star0._infos) or (arg_candidates[i].value == star1._value and the(arg_candidates[i].info) in star1._infos))), Int)
assert forall(lambda t: implies(t in star0._infos, exists(lambda i: 0 <= i and i < len(arg_candidates) and arg_candidates[i].value == star0._value and arg_candidates[i].info == t, Int)), Tag)
assert forall(lambda t: implies(t in star1._infos, exists(lambda i: 0 <= i and i < len(arg_candidates) and arg_candidates[i].value == star1._value and arg_candidates[i].info == t, Int)), Tag)
"""
    CUTS_SPE = (pair_cuts("star0", "min_ltl", "left_species", "left_node", "min_rtr", "right_species", "right_node", "place_spe", "spe_cost")
                + pair_cuts("star1", "min_ltr", "right_species", "left_node", "min_rtl", "left_species", "right_node", "place_spe", "spe_cost") + SEQ_CUTS)
    add(Contract(
        f"{M}:_compute_thl_try_speciation", params=PARAMS,
        requires=PRE + [("internal-species", "not leaf(root_species)")],
        ensures=bellman(SPE_TERM, SPE_PLACED),
        modifies=["table.g_val", "table.g_tags"], globals=G, fuel=2,
        loops={
            # entries that a loop does not touch keep what is known about them (the engine havocs only what the body writes)
            0: LoopSpec(header="for left_child in left_species.traverse()", index="k", length="n",
                        invariants=STABLE + AGG("min_ltl", "left_species", "place_spe", "left_node", "k") + AGG("min_rtl", "left_species", "place_spe", "right_node", "k")),
            1: LoopSpec(header="for right_child in right_species.traverse()", index="k", length="n",
                        invariants=STABLE + AGG("min_ltr", "right_species", "place_spe", "left_node", "k") + AGG("min_rtr", "right_species", "place_spe", "right_node", "k")),
        },
        at={"table[root_node][root_species].update(": [
            # cuts: every aggregator retains at least one placement (the subtree it ranges over is not empty)
            "assert anc(left_species, left_species) and 0 <= lvl_idx(left_species, left_species) and lvl_idx(left_species, left_species) < size(left_species)",
            "assert anc(right_species, right_species) and 0 <= lvl_idx(right_species, right_species) and lvl_idx(right_species, right_species) < size(right_species)",
            "assert exists(lambda t: t in min_ltl._infos, Tag)",
            "assert exists(lambda t: t in min_rtl._infos, Tag)",
            "assert exists(lambda t: t in min_ltr._infos, Tag)",
            "assert exists(lambda t: t in min_rtr._infos, Tag)",
        ]},
        before_call={"Table.cell2_update": [CUTS_SPE]},
        epilogue=[end_cuts(SPE_TERM, [("star0", "min_ltl", "left_species", "left_node", "min_rtr", "right_species", "right_node"),
                                      ("star1", "min_ltr", "right_species", "left_node", "min_rtl", "left_species", "right_node")], "place_spe")],
        canary=f"{NEWV} == {OLDV}",
        props=["C01", "C05"]))


def _dup_transfer(E):
    """Bellman contract of _compute_thl_try_duplication_transfer: duplications (both children below s) and the two transfer shapes
    (one child below s, the other in a species incomparable with s), one loop over the whole species tree with a filter per aggregator."""
    add = E.registry.add
    G = {"inf": E.globals["inf"]}
    TREE = "species_lca.tree"
    SEP = lambda x: f"(not anc(root_species, {x}) and not anc({x}, root_species))"
    SUB = lambda x: f"anc(root_species, {x})"
    GV0, GT0 = "old(table.g_val)", "old(table.g_tags)"
    U, S = "root_node", "root_species"
    L, R = f"left({U})", f"right({U})"
    NEWV, OLDV = f"cellv(table.g_val, {U}, {S})", f"cellv({GV0}, {U}, {S})"
    NEWT, OLDT = f"cellt(table.g_val, table.g_tags, {U}, {S}, t)", f"cellt({GV0}, {GT0}, {U}, {S}, t)"
    NEWT_OF = lambda t: f"cellt(table.g_val, table.g_tags, {U}, {S}, {t})"

    WFE = lambda e: [
        (f"{e}/policies", f"{e}._merge_policy == MergePolicy.MIN and {e}._retention_policy == table.retention_policy"),
        (f"{e}/wf-any", f"implies({e}._retention_policy == RetentionPolicy.ANY, forall(lambda t, t2: implies(t in {e}._infos and t2 in {e}._infos, t == t2), Tag, Tag))"),
        (f"{e}/wf-truthy", f"forall(lambda t: implies(t in {e}._infos, tag_truthy(t)), Tag)"),
    ]
    # placement values as the code's tables hold them (current table == old table until the final update)
    PD = lambda gv, fl, c, x: f"place_dup({gv}, {fl}, root_species, {c}, {x})"
    PS = lambda gv, c, x: f"cellv({gv}, {c}, {x})"

    def AGG(e, filt, F, k):
        IN = lambda x: f"(anc({TREE}, {x}) and lvl_idx({TREE}, {x}) < {k} and {filt(x)})"
        W = "node_of_tag(t)"
        return WFE(e) + [
            (f"{e}/lower", f"forall(lambda x: implies({IN('x')}, not ({F('x')} < {e}._value)), Node)"),
            (f"{e}/attained", f"{e}._value == inf or exists(lambda x: {IN('x')} and {F('x')} == {e}._value, Node)"),
            (f"{e}/tags-sound", f"forall(lambda t: implies(t in {e}._infos, {IN(W)} and {F(W)} == {e}._value and t == tag_of_node({W})), Tag)"),
            (f"{e}/tags-all-complete", f"implies(table.retention_policy == RetentionPolicy.ALL, forall(lambda x: implies({IN('x')} and {F('x')} == {e}._value, tag_of_node(x) in {e}._infos), Node))"),
            (f"{e}/nonempty", f"implies(exists(lambda x: {IN('x')}, Node), exists(lambda t: t in {e}._infos, Tag))"),
            (f"{e}/empty-is-inf", f"implies(not exists(lambda t: t in {e}._infos, Tag), {e}._value == inf)"),
        ]

    CUR = "table.g_val"
    ENT = {  # entry -> (filter, value of a placement in the loop's vocabulary, same in the postcondition's vocabulary, child)
        "min_ltc": (SUB, lambda x: PD(CUR, "loss_cost", "left_node", x), lambda x: PD(GV0, "costs[Event.FULL_LOSS]", L, x)),
        "min_rtc": (SUB, lambda x: PD(CUR, "loss_cost", "right_node", x), lambda x: PD(GV0, "costs[Event.FULL_LOSS]", R, x)),
        "min_lts": (SEP, lambda x: PS(CUR, "left_node", x), lambda x: PS(GV0, L, x)),
        "min_rts": (SEP, lambda x: PS(CUR, "right_node", x), lambda x: PS(GV0, R, x)),
    }
    INV = []
    for e, (filt, F, _) in ENT.items():
        INV += AGG(e, filt, F, "k")
    STARS = [("star0", "min_ltc", "min_rtc", "dup_cost"), ("star1", "min_lts", "min_rtc", "hgt_cost"), ("star2", "min_ltc", "min_rts", "hgt_cost")]
    COSTS = {"dup_cost": "costs[Event.DUPLICATION]", "hgt_cost": "costs[Event.HORIZONTAL_TRANSFER]"}
    FAM = []  # (condition(x, y), term(x, y)) in the postcondition's vocabulary, one per star
    for star, e1, e2, cost in STARS:
        f1, _, P1 = ENT[e1]
        f2, _, P2 = ENT[e2]
        FAM.append((lambda x, y, f1=f1, f2=f2: f"({f1(x)} and {f2(y)})",
                    lambda x, y, P1=P1, P2=P2, cost=cost: f"({COSTS[cost]} + {P1(x)} + {P2(y)})"))
    PLACED = lambda x, y: "(" + " or ".join(c(x, y) for c, _ in FAM) + ")"
    TERM = lambda x, y: f"({FAM[0][1](x, y)} if {FAM[0][0](x, y)} else ({FAM[1][1](x, y)} if {FAM[1][0](x, y)} else {FAM[2][1](x, y)}))"
    INTREE = lambda x, y: f"rootof({x}) == {TREE} and rootof({y}) == {TREE}"
    WX, WY = "mi_left(t)", "mi_right(t)"
    NEW_OF = lambda x, y: f"({INTREE(x, y)} and {PLACED(x, y)} and {TERM(x, y)} == {NEWV} and is_fin({NEWV}))"
    FRAME_T = ("frame", f"""forall(lambda a, b: implies(a != {U} or b != {S},
                  cellv(table.g_val, a, b) == cellv({GV0}, a, b)
                  and forall(lambda t: cellt(table.g_val, table.g_tags, a, b, t) == cellt({GV0}, {GT0}, a, b, t), Tag)), Node, Node)""")
    POST = [
        ("bellman/not-worse-than-old", f"not ({OLDV} < {NEWV})"),
        ("bellman/lower-bound", f"forall(lambda x, y: implies({INTREE('x', 'y')} and {PLACED('x', 'y')}, not ({TERM('x', 'y')} < {NEWV})), Node, Node)"),
        ("bellman/attained", f"{NEWV} == {OLDV} or exists(lambda x, y: {INTREE('x', 'y')} and {PLACED('x', 'y')} and {TERM('x', 'y')} == {NEWV}, Node, Node)"),
        ("bellman/tags-sound", f"forall(lambda t: implies({NEWT}, ({OLDT} and {OLDV} == {NEWV}) or ({NEW_OF(WX, WY)} and t == mi({WX}, {WY}))), Tag)"),
        ("bellman/tags-all-complete-new", f"implies(table.retention_policy == RetentionPolicy.ALL, forall(lambda x, y: implies({NEW_OF('x', 'y')}, {NEWT_OF('mi(x, y)')}), Node, Node))"),
        ("bellman/tags-all-complete-old", f"implies(table.retention_policy == RetentionPolicy.ALL, forall(lambda t: implies({OLDT} and {OLDV} == {NEWV}, {NEWT}), Tag))"),
        ("bellman/tags-any-nonempty", f"""implies(table.retention_policy == RetentionPolicy.ANY and (exists(lambda t: {OLDT} and {OLDV} == {NEWV}, Tag)
               or exists(lambda x, y: {NEW_OF('x', 'y')}, Node, Node)), exists(lambda t: {NEWT}, Tag))"""),
        ("bellman/tags-any-single", f"implies(table.retention_policy == RetentionPolicy.ANY, forall(lambda t, t2: implies({NEWT} and {NEWT_OF('t2')}, t == t2), Tag, Tag))"),
        FRAME_T,
        ("no-neg-inf", "forall(lambda a, b: cellv(table.g_val, a, b) != -inf, Node, Node)"),
    ]

    # ---- cuts
    ATEND = lambda x: f"(anc({TREE}, {x}) and {{F}})"
    before = []
    for star, e1, e2, cost in STARS:
        f1, F1, _ = ENT[e1]
        f2, F2, _ = ENT[e2]
        OPT = lambda x, y: f"(anc({TREE}, {x}) and {f1(x)} and anc({TREE}, {y}) and {f2(y)} and {F1(x)} == {e1}._value and {F2(y)} == {e2}._value)"
        before += [
            f"assert {star}._value == {cost} + {e1}._value + {e2}._value",
            f"assert implies(exists(lambda a: a in {e1}._infos, Tag) and exists(lambda b: b in {e2}._infos, Tag), exists(lambda t: t in {star}._infos, Tag))",
            f"assert implies(not (exists(lambda a: a in {e1}._infos, Tag) and exists(lambda b: b in {e2}._infos, Tag)), {star}._value == inf and not exists(lambda t: t in {star}._infos, Tag))",
            f"assert forall(lambda t: implies(t in {star}._infos, {OPT('mi_left(t)', 'mi_right(t)')} and t == mi(mi_left(t), mi_right(t))), Tag)",
            f"assert implies(table.retention_policy == RetentionPolicy.ALL, forall(lambda x, y: implies({OPT('x', 'y')}, mi(x, y) in {star}._infos), Node, Node))",
        ]
    names = [s[0] for s in STARS]
    for n in names:
        before.append(f"assert implies(exists(lambda t: t in {n}._infos, Tag), exists(lambda i: 0 <= i and i < len(arg_candidates) and arg_candidates[i].value == {n}._value and arg_candidates[i].info is not None and the(arg_candidates[i].info) in {n}._infos, Int))")
    before.append("assert forall(lambda i: implies(0 <= i and i < len(arg_candidates), arg_candidates[i].info is not None and ("
                  + " or ".join(f"(arg_candidates[i].value == {n}._value and the(arg_candidates[i].info) in {n}._infos)" for n in names) + ")), Int)")
    for n in names:
        before.append(f"assert forall(lambda t: implies(t in {n}._infos, exists(lambda i: 0 <= i and i < len(arg_candidates) and arg_candidates[i].value == {n}._value and arg_candidates[i].info == t, Int)), Tag)")
    end = []
    for (star, e1, e2, cost), (cond, term) in zip(STARS, FAM):
        _, _, P1 = ENT[e1]
        _, _, P2 = ENT[e2]
        end.append(f"assert not ({star}._value < {NEWV})")
        end.append(f"""assert forall(lambda x, y: implies({INTREE('x', 'y')} and {cond('x', 'y')} and {term('x', 'y')} == {NEWV} and is_fin({NEWV}),
                        {P1('x')} == {e1}._value and {P2('y')} == {e2}._value and {star}._value == {NEWV}), Node, Node)""")
    for (star, e1, e2, cost), (cond, term) in zip(STARS, FAM):
        # a finite combined value is realised by a placement of its family; under ALL its tags reach the cell when it is the new optimum
        end.append(f"assert implies(is_fin({star}._value), exists(lambda x, y: {INTREE('x', 'y')} and {cond('x', 'y')} and {term('x', 'y')} == {star}._value, Node, Node))")
        end.append(f"assert implies(table.retention_policy == RetentionPolicy.ALL, forall(lambda t: implies(t in {star}._infos and {star}._value == {NEWV} and is_fin({NEWV}), {NEWT}), Tag))")
    for (star, e1, e2, cost), (cond, term) in zip(STARS, FAM):
        # soundness, family by family: a tag of a combined entry that realises the new optimum is an optimal placement of that family
        end.append(f"""assert forall(lambda t: implies(t in {star}._infos and {star}._value == {NEWV} and is_fin({NEWV}),
                        {INTREE(WX, WY)} and {cond(WX, WY)} and {term(WX, WY)} == {NEWV} and t == mi({WX}, {WY})), Tag)""")
    for (star, e1, e2, cost), (cond, term) in zip(STARS, FAM):
        # the ALL-completeness clause, family by family
        end.append(f"""assert implies(table.retention_policy == RetentionPolicy.ALL, forall(lambda x, y: implies({INTREE('x', 'y')} and {cond('x', 'y')}
                        and {term('x', 'y')} == {NEWV} and is_fin({NEWV}), {NEWT_OF('mi(x, y)')}), Node, Node))""")
    end.append(f"assert {NEWV} == {OLDV} or " + " or ".join(f"{NEWV} == {n}._value" for n in names))
    end.append(f"assert forall(lambda t: implies({NEWT}, ({OLDT} and {OLDV} == {NEWV}) or "
               + " or ".join(f"(t in {n}._infos and {n}._value == {NEWV} and is_fin({NEWV}))" for n in names) + "), Tag)")
    norm = lambda xs: "\n".join(" ".join(x.split()) for x in xs) + "\n"

    PRE = [
        ("species-tree", "binary(species_lca.tree) and rootof(species_lca.tree) == species_lca.tree and rootof(root_species) == species_lca.tree"),
        ("object-node", "binary(rootof(root_node)) and not leaf(root_node)"),
        ("costs-present", "Event.SPECIATION in costs and Event.DUPLICATION in costs and Event.HORIZONTAL_TRANSFER in costs and Event.FULL_LOSS in costs"),
        ("costs", "is_fin(costs[Event.SPECIATION]) and is_fin(costs[Event.DUPLICATION]) and is_fin(costs[Event.FULL_LOSS]) and costs[Event.SPECIATION] >= 0 and costs[Event.DUPLICATION] >= 0 and costs[Event.HORIZONTAL_TRANSFER] >= 0 and costs[Event.FULL_LOSS] >= 0"),
        ("table-policies", "table.merge_policy == MergePolicy.MIN and table.retention_policy != RetentionPolicy.NONE"),
        ("table-no-neg-inf", "forall(lambda a, b: cellv(table.g_val, a, b) != -inf, Node, Node)"),
    ]
    STABLE = ["table.g_val == old(table.g_val) and table.g_tags == old(table.g_tags)",
              "left_node == left(root_node) and right_node == right(root_node)",
              "dup_cost == costs[Event.DUPLICATION] and hgt_cost == costs[Event.HORIZONTAL_TRANSFER] and loss_cost == costs[Event.FULL_LOSS]"]
    add(Contract(
        f"{M}:_compute_thl_try_duplication_transfer",
        params={"species_lca": "LowestCommonAncestor", "root_species": "Node", "root_node": "Node", "table": "Table", "costs": "Map[Event, Ext]"},
        requires=PRE, ensures=POST, modifies=["table.g_val", "table.g_tags"], globals=G, fuel=2,
        loops={0: LoopSpec(header="for other_species in species_lca.tree.traverse()", index="k", length="n", invariants=STABLE + INV)},
        at={"table[root_node][root_species].update(": [norm([
            f"assert anc({TREE}, root_species) and 0 <= lvl_idx({TREE}, root_species) and lvl_idx({TREE}, root_species) < size({TREE}) and anc(root_species, root_species)",
            "assert exists(lambda t: t in min_ltc._infos, Tag)",
            "assert exists(lambda t: t in min_rtc._infos, Tag)",
        ])]},
        before_call={"Table.cell2_update": [norm(before)]},
        epilogue=[norm(end)],
        canary=f"{NEWV} == {OLDV}",
        props=["C01", "C05"]))


_setup_spe = setup


def setup(E):  # noqa: F811
    _setup_spe(E)
    _dup_transfer(E)


def _table_fill(E):
    """_compute_thl_table: after the fill, leaf cells hold 0 at the leaf's species and nothing elsewhere, and every internal cell is
    LOWER-CLOSED: no placement of the two children, priced by the documented event model over the children's cells, is cheaper than
    the cell.  (This is the half of the Bellman equation that the lower-bound lemma consumes; the other half - the value is attained and
    the retained placements are exactly the optimal ones - is proved per step and not re-stated for the whole table.)"""
    add = E.registry.add
    G = {"inf": E.globals["inf"]}
    E.declare_class("DictDimension", {}, dataclass=True)
    add(Contract(f"{DP}:Table.__init__", kind="assumed",
                 params={"self": "Table", "dimensions": "Any", "merge_policy": "MergePolicy", "retention_policy": "RetentionPolicy"},
                 ensures=["self.merge_policy == merge_policy and self.retention_policy == retention_policy",
                          "forall(lambda a, b: cellv(self.g_val, a, b) == inf and forall(lambda t: not cellt(self.g_val, self.g_tags, a, b, t), Tag), Node, Node)"],
                 modifies=["self.*"], globals=G,
                 note="a new table has no cell (abstract cell map, see Table.cell2_*): ASSUMED, validated by the bounded Table-proxies stand-in", props=["C16"]))
    # the recurrence terms as named spec functions (same formulas as the step contracts)
    GVT = "gv: Map[Tup[Node, Node], Ext], costs: Map[Event, Ext], s: Node, u: Node, x: Node, y: Node"
    E.spec("spe_placed", "s: Node, x: Node, y: Node", "Bool",
           "(anc(left(s), x) and anc(right(s), y)) or (anc(right(s), x) and anc(left(s), y))")
    E.spec("spe_term", GVT, "Ext",
           "costs[Event.SPECIATION] + place_spe(gv, costs[Event.FULL_LOSS], s, left(u), x) + place_spe(gv, costs[Event.FULL_LOSS], s, right(u), y)")
    E.spec("dt_placed", "s: Node, x: Node, y: Node", "Bool", """
           (anc(s, x) and anc(s, y)) or ((not anc(s, x) and not anc(x, s)) and anc(s, y)) or (anc(s, x) and (not anc(s, y) and not anc(y, s)))""")
    E.spec("dt_term", GVT, "Ext", """
           (costs[Event.DUPLICATION] + place_dup(gv, costs[Event.FULL_LOSS], s, left(u), x) + place_dup(gv, costs[Event.FULL_LOSS], s, right(u), y))
           if (anc(s, x) and anc(s, y)) else
           ((costs[Event.HORIZONTAL_TRANSFER] + cellv(gv, left(u), x) + place_dup(gv, costs[Event.FULL_LOSS], s, right(u), y))
            if ((not anc(s, x) and not anc(x, s)) and anc(s, y)) else
            (costs[Event.HORIZONTAL_TRANSFER] + place_dup(gv, costs[Event.FULL_LOSS], s, left(u), x) + cellv(gv, right(u), y)))""")
    E.spec("lower_closed", "gv: Map[Tup[Node, Node], Ext], costs: Map[Event, Ext], st: Node, u: Node, s: Node", "Bool", """
           forall(lambda x, y: implies(rootof(x) == st and rootof(y) == st,
                  implies((not leaf(s)) and spe_placed(s, x, y), not (spe_term(gv, costs, s, u, x, y) < cellv(gv, u, s)))
                  and implies(dt_placed(s, x, y), not (dt_term(gv, costs, s, u, x, y) < cellv(gv, u, s)))), Node, Node)""")
    I = "rec_input"
    WF = [(n, t.replace("{I}", I)) for n, t in E._wf_in]
    OT, ST = f"{I}.object_tree", f"{I}.species_lca.tree"
    LEAFCELLS = lambda gv, m: f"forall(lambda s: cellv({gv}, {m}, s) == (0 if s == {I}.leaf_object_species[{m}] else inf), Node)"
    CLOSED = lambda gv, m: f"forall(lambda s: implies(rootof(s) == {ST}, lower_closed({gv}, {I}.costs, {ST}, {m}, s)), Node)"
    BASE = [
        ("policies", "table.merge_policy == MergePolicy.MIN and table.retention_policy == retention_policy"),
        ("no-neg-inf", "forall(lambda a, b: cellv(table.g_val, a, b) != -inf, Node, Node)"),
    ]
    add(Contract(
        f"{M}:_compute_thl_table", params={"rec_input": "ReconciliationInput", "retention_policy": "RetentionPolicy"}, returns="Table",
        requires=WF + [("policy", "retention_policy != RetentionPolicy.NONE")],
        ensures=[
            ("policies", "result.merge_policy == MergePolicy.MIN and result.retention_policy == retention_policy"),
            ("leaf-cells", f"forall(lambda m: implies(rootof(m) == {OT} and leaf(m), {LEAFCELLS('result.g_val', 'm')}), Node)"),
            ("lower-closed", f"forall(lambda m: implies(rootof(m) == {OT} and not leaf(m), {CLOSED('result.g_val', 'm')}), Node)"),
        ],
        globals=G, fuel=2,
        at={"for root_species in rec_input.species_lca.tree.traverse('postorder')": ["g0 = table.g_val"],
            "if not root_species.is_leaf()": ["gs = table.g_val"],
            "table[root_node][root_species] = Candidate(0)": ["gl = table.g_val"],
            "_compute_thl_try_duplication_transfer(": [
                "assert forall(lambda a, b: implies(a != root_node or b != root_species, cellv(table.g_val, a, b) == cellv(gs, a, b)), Node, Node)",
                # cuts between the two steps: the speciation step keeps the closedness reached so far and bounds the cell by every speciation placement
                f"assert forall(lambda s: implies(anc({ST}, s) and post_idx({ST}, s) < j, lower_closed(table.g_val, {I}.costs, {ST}, root_node, s)), Node)",
                f"""assert implies(not leaf(root_species), forall(lambda x, y: implies(rootof(x) == {ST} and rootof(y) == {ST} and spe_placed(root_species, x, y),
                        not (spe_term(table.g_val, {I}.costs, root_species, root_node, x, y) < cellv(table.g_val, root_node, root_species))), Node, Node))""",
                "assert forall(lambda a, b: implies(a != root_node, cellv(table.g_val, a, b) == cellv(g0, a, b)), Node, Node)",
                "g1 = table.g_val",
            ]},
        after={"table[root_node][root_species] = Candidate(0)": [
            f"""assert forall(lambda m: implies(anc({OT}, m) and post_idx({OT}, m) < k and not leaf(m),
                    m != root_node and left(m) != root_node and right(m) != root_node), Node)""",
            "assert forall(lambda a, b: implies(a != root_node, cellv(table.g_val, a, b) == cellv(gl, a, b)), Node, Node)",
            f"""assert forall(lambda m, s, x, y: implies(anc({OT}, m) and post_idx({OT}, m) < k and not leaf(m),
                    spe_term(table.g_val, {I}.costs, s, m, x, y) == spe_term(gl, {I}.costs, s, m, x, y)
                    and dt_term(table.g_val, {I}.costs, s, m, x, y) == dt_term(gl, {I}.costs, s, m, x, y)
                    and cellv(table.g_val, m, s) == cellv(gl, m, s)), Node, Node, Node, Node)""",
            f"assert forall(lambda m: implies(anc({OT}, m) and post_idx({OT}, m) < k and not leaf(m), {CLOSED('table.g_val', 'm')}), Node)",
        ],
            "for root_species in rec_input.species_lca.tree.traverse('postorder')": [
            # cuts after the species loop: the node just processed is closed; the nodes processed earlier and their children are other nodes,
            # so their closedness, stated over cells that did not change, carries over
            f"assert {CLOSED('table.g_val', 'root_node')}",
            f"""assert forall(lambda m: implies(anc({OT}, m) and post_idx({OT}, m) < k and not leaf(m),
                    m != root_node and left(m) != root_node and right(m) != root_node), Node)""",
            f"""assert forall(lambda m, s, x, y: implies(anc({OT}, m) and post_idx({OT}, m) < k and not leaf(m),
                    spe_term(table.g_val, {I}.costs, s, m, x, y) == spe_term(g0, {I}.costs, s, m, x, y)
                    and dt_term(table.g_val, {I}.costs, s, m, x, y) == dt_term(g0, {I}.costs, s, m, x, y)
                    and cellv(table.g_val, m, s) == cellv(g0, m, s)), Node, Node, Node, Node)""",
            f"assert forall(lambda m: implies(anc({OT}, m) and post_idx({OT}, m) < k and not leaf(m), {CLOSED('table.g_val', 'm')}), Node)",
        ],
            "_compute_thl_try_duplication_transfer(": [
            # cuts after the second step, in the vocabulary of lower_closed
            "assert forall(lambda a, b: implies(a != root_node or b != root_species, cellv(table.g_val, a, b) == cellv(g1, a, b)), Node, Node)",
            "assert not (cellv(g1, root_node, root_species) < cellv(table.g_val, root_node, root_species))",
            f"""assert implies(not leaf(root_species), forall(lambda x, y: implies(rootof(x) == {ST} and rootof(y) == {ST} and spe_placed(root_species, x, y),
                    spe_term(table.g_val, {I}.costs, root_species, root_node, x, y) == spe_term(g1, {I}.costs, root_species, root_node, x, y)), Node, Node))""",
            f"""assert implies(not leaf(root_species), forall(lambda x, y: implies(rootof(x) == {ST} and rootof(y) == {ST} and spe_placed(root_species, x, y),
                    not (spe_term(table.g_val, {I}.costs, root_species, root_node, x, y) < cellv(table.g_val, root_node, root_species))), Node, Node))""",
            f"""assert forall(lambda x, y: implies(rootof(x) == {ST} and rootof(y) == {ST} and dt_placed(root_species, x, y),
                    not (dt_term(table.g_val, {I}.costs, root_species, root_node, x, y) < cellv(table.g_val, root_node, root_species))), Node, Node)""",
            f"assert lower_closed(table.g_val, {I}.costs, {ST}, root_node, root_species)",
            f"assert forall(lambda s: implies(anc({ST}, s) and post_idx({ST}, s) < j, lower_closed(table.g_val, {I}.costs, {ST}, root_node, s)), Node)",
        ]},
        loops={
            0: LoopSpec(header="for root_node in rec_input.object_tree.traverse('postorder')", index="k", length="n",
                        invariants=BASE + [
                            ("leaf-cells", f"forall(lambda m: implies(anc({OT}, m) and post_idx({OT}, m) < k and leaf(m), {LEAFCELLS('table.g_val', 'm')}), Node)"),
                            ("lower-closed", f"forall(lambda m: implies(anc({OT}, m) and post_idx({OT}, m) < k and not leaf(m), {CLOSED('table.g_val', 'm')}), Node)"),
                            ("untouched", f"forall(lambda m, s: implies(anc({OT}, m) and post_idx({OT}, m) >= k, cellv(table.g_val, m, s) == inf), Node, Node)"),
                        ]),
            1: LoopSpec(header="for root_species in rec_input.species_lca.tree.traverse('postorder')", index="j", length="nj",
                        invariants=BASE + [
                            ("others-unchanged", "forall(lambda a, b: implies(a != root_node, cellv(table.g_val, a, b) == cellv(g0, a, b)), Node, Node)"),
                            ("closed-so-far", f"forall(lambda s: implies(anc({ST}, s) and post_idx({ST}, s) < j, lower_closed(table.g_val, {I}.costs, {ST}, root_node, s)), Node)"),
                        ]),
        },
        props=["C01"]))


_setup_dt = setup


def setup(E):  # noqa: F811
    _setup_dt(E)
    _table_fill(E)


def _lower_bound(E):
    """L2: a lower-closed table bounds the cost of EVERY reconciliation of a subtree from below (induction over the object tree,
    one recurrence instance per event kind).  Together with _compute_thl_table this is: no valid reconciliation is cheaper than
    the table value at its root species."""
    add = E.registry.add
    G = {"inf": E.globals["inf"]}
    add(Contract(
        "lemma_thl_lower_bound", kind="lemma",
        params={"gv": "Map[Tup[Node, Node], Ext]", "costs": "Map[Event, Ext]", "st": "Node", "ot": "Node",
                "rec": "Map[Node, Node]", "lm": "Map[Node, Node]", "u": "Node"},
        requires=[
            ("trees", "binary(ot) and rootof(ot) == ot and binary(st) and rootof(st) == st and rootof(u) == ot"),
            ("costs-present", "Event.SPECIATION in costs and Event.DUPLICATION in costs and Event.HORIZONTAL_TRANSFER in costs and Event.FULL_LOSS in costs"),
            ("costs", "is_fin(costs[Event.SPECIATION]) and is_fin(costs[Event.DUPLICATION]) and is_fin(costs[Event.FULL_LOSS]) and costs[Event.SPECIATION] >= 0 and costs[Event.DUPLICATION] >= 0 and costs[Event.HORIZONTAL_TRANSFER] >= 0 and costs[Event.FULL_LOSS] >= 0"),
            ("mapping-total", "forall(lambda m: implies(rootof(m) == ot, (m in rec) and rootof(rec[m]) == st), Node)"),
            ("leaf-map-total", "forall(lambda m: implies(rootof(m) == ot and leaf(m), (m in lm) and rootof(lm[m]) == st), Node)"),
            ("leaf-cells", "forall(lambda m: implies(rootof(m) == ot and leaf(m), forall(lambda s: cellv(gv, m, s) == (0 if s == lm[m] else inf), Node)), Node)"),
            ("lower-closed", "forall(lambda m: implies(rootof(m) == ot and not leaf(m), forall(lambda s: implies(rootof(s) == st, lower_closed(gv, costs, st, m, s)), Node)), Node)"),
        ],
        ensures=[("lower-bound", "not (eval_cost(rec, lm, costs, u) < cellv(gv, u, rec[u]))")],
        body="""
        if not leaf(u):
            lemma_thl_lower_bound(gv, costs, st, ot, rec, lm, left(u))
            lemma_thl_lower_bound(gv, costs, st, ot, rec, lm, right(u))
            assert lower_closed(gv, costs, st, u, rec[u])
            if node_event_spec(rec, lm, u) == Event.SPECIATION:
                assert (not leaf(rec[u])) and spe_placed(rec[u], rec[left(u)], rec[right(u)])
                assert not (spe_term(gv, costs, rec[u], u, rec[left(u)], rec[right(u)]) < cellv(gv, u, rec[u]))
                assert not (eval_cost(rec, lm, costs, u) < spe_term(gv, costs, rec[u], u, rec[left(u)], rec[right(u)]))
            elif node_event_spec(rec, lm, u) == Event.DUPLICATION:
                assert dt_placed(rec[u], rec[left(u)], rec[right(u)]) and anc(rec[u], rec[left(u)]) and anc(rec[u], rec[right(u)])
                assert not (dt_term(gv, costs, rec[u], u, rec[left(u)], rec[right(u)]) < cellv(gv, u, rec[u]))
                assert not (eval_cost(rec, lm, costs, u) < dt_term(gv, costs, rec[u], u, rec[left(u)], rec[right(u)]))
            elif node_event_spec(rec, lm, u) == Event.HORIZONTAL_TRANSFER:
                assert dt_placed(rec[u], rec[left(u)], rec[right(u)]) and not (anc(rec[u], rec[left(u)]) and anc(rec[u], rec[right(u)]))
                assert not (dt_term(gv, costs, rec[u], u, rec[left(u)], rec[right(u)]) < cellv(gv, u, rec[u]))
                assert not (eval_cost(rec, lm, costs, u) < dt_term(gv, costs, rec[u], u, rec[left(u)], rec[right(u)]))
        """,
        globals=G, fuel=3,
        note="structural induction over the binary object tree (recursive calls on the two children)",
        props=["C01"]))


_setup_tf = setup


def setup(E):  # noqa: F811
    _setup_tf(E)
    _lower_bound(E)
