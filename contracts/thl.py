"""Contracts for the THL table step functions of superrec2.compute.reconciliation (C01, C05).

Bellman postconditions taken from the documented event model (not from the code): after the call the cell (root_node, root_species)
holds the optimum of its old content and of every child placement of the given event kinds, and under ALL exactly the optimal
placements / under ANY one of them; no other cell changes.

The dynamic-programming table is used through ASSUMED contracts over an abstract state (a partial map from key pairs to (value, tags)):
`table[k0][k1].m(...)` is desugared to `Table.cell2_m(table, k0, k1, ...)` - the proxy objects are pure views that re-resolve the
address on every call - and the behaviour stated here is what the bounded stand-in `dynamic_programming:Table-proxies` validates.
"""
from pyvc.contracts import Contract, LoopSpec
from pyvc.values import UFun
from pyvc.types import PT, Ref

M = "superrec2.compute.reconciliation"
DP = "superrec2.utils.dynamic_programming"
REQUIRES = ["compute_reconciliation"]


def setup(E):
    add = E.registry.add
    G = {"inf": E.globals["inf"]}
    E.view_classes = set(getattr(E, "view_classes", ())) | {"Table"}

    # ---- info tags: species nodes (aggregator entries) and MappingInfo pairs (table cells) are injected into the one tag sort
    E.declare_ufun("tag_of_node", ["Node"], "Tag")
    E.declare_ufun("node_of_tag", ["Tag"], "Node")
    E.declare_ufun("mi", ["Node", "Node"], "Tag")
    E.declare_ufun("mi_left", ["Tag"], "Node")
    E.declare_ufun("mi_right", ["Tag"], "Node")
    note = "info tags are Python objects of different classes held in one generic container: modelled as injections into one uninterpreted sort; TreeNode and non-empty NamedTuple are truthy"
    E.axiom("tag/node-injection", "forall(lambda n: node_of_tag(tag_of_node(n)) == n and tag_truthy(tag_of_node(n)), Node)", note, keys=["tag_of_node", "node_of_tag"])
    E.axiom("tag/mapping-info-injection", "forall(lambda a, b: mi_left(mi(a, b)) == a and mi_right(mi(a, b)) == b and tag_truthy(mi(a, b)), Node, Node)", note, keys=["mi", "mi_left", "mi_right"])
    E.ops.ref_coercions[("Node", "Tag")] = "tag_of_node"
    E.ops.ref_coercions[("Tag", "Node")] = "node_of_tag"
    E.globals["MappingInfo"] = UFun("mi", [Ref("Node"), Ref("Node")], Ref("Tag"))
    E.declare_ref_attr("Tag", "left", "mi_left")
    E.declare_ref_attr("Tag", "right", "mi_right")

    # ---- abstract table of rank 2
    E.declare_class("Table", {
        "merge_policy": "MergePolicy", "retention_policy": "RetentionPolicy",
        "g_val": "Map[Tup[Node, Node], Ext]", "g_tags": "Map[Tup[Node, Node], Set[Tag]]"})
    # an unwritten cell reads as infinitely bad with no tags
    E.spec("cellv", "gv: Map[Tup[Node, Node], Ext], u: Node, s: Node", "Ext", "gv[(u, s)] if (u, s) in gv else inf")
    E.spec("cellt", "gv: Map[Tup[Node, Node], Ext], gt: Map[Tup[Node, Node], Set[Tag]], u: Node, s: Node, t: Tag", "Bool",
           "((u, s) in gv) and is_fin(gv[(u, s)]) and (t in gt[(u, s)])")

    V1 = "cellv(self.g_val, k0, k1)"
    V0 = "cellv(old(self.g_val), k0, k1)"
    T1 = "cellt(self.g_val, self.g_tags, k0, k1, t)"
    T0 = "cellt(old(self.g_val), old(self.g_tags), k0, k1, t)"
    HIT = "exists(lambda i: 0 <= i and i < len(candidates) and candidates[i].value == {V1} and is_fin(candidates[i].value) and candidates[i].info == t and tag_truthy(t), Int)".replace("{V1}", V1)
    RHS = f"(({T0} and {V0} == {V1}) or {HIT})"
    FRAME = ("frame", """forall(lambda a, b: implies(a != k0 or b != k1,
                 cellv(self.g_val, a, b) == cellv(old(self.g_val), a, b)
                 and forall(lambda t: cellt(self.g_val, self.g_tags, a, b, t) == cellt(old(self.g_val), old(self.g_tags), a, b, t), Tag)), Node, Node)""")
    PROXY_NOTE = ("Table / TableProxy / EntryProxy seen as a partial map from key pairs to (value, tags): unwritten cell = (inf, {}), "
                  "update creates the cell iff some candidate is finite and then behaves as Entry.update; ASSUMED, validated only by the bounded Table-proxies stand-in")
    add(Contract(f"{DP}:Table.cell2_value", kind="assumed", params={"self": "Table", "k0": "Node", "k1": "Node"}, returns="Ext",
                 ensures=[f"result == {V1}"], globals=G, note=PROXY_NOTE, props=["C16"]))
    add(Contract(f"{DP}:Table.cell2_is_infinite", kind="assumed", params={"self": "Table", "k0": "Node", "k1": "Node"}, returns="Bool",
                 ensures=[f"result == (not is_fin({V1}))"], globals=G, note=PROXY_NOTE, props=["C16"]))
    add(Contract(f"{DP}:Table.cell2_infos", kind="assumed", params={"self": "Table", "k0": "Node", "k1": "Node"}, returns="Set[Tag]",
                 ensures=[f"forall(lambda t: (t in result) == {T1}, Tag)"], globals=G, note=PROXY_NOTE, props=["C16"]))
    UPD = [
        ("value-not-worse-than-old", f"not ({V0} < {V1})"),
        ("value-not-worse-than-any-candidate", f"forall(lambda i: implies(0 <= i and i < len(candidates), not (candidates[i].value < {V1})), Int)"),
        ("value-is-attained", f"{V1} == {V0} or exists(lambda i: 0 <= i and i < len(candidates) and candidates[i].value == {V1}, Int)"),
        ("tags-all", f"implies(self.retention_policy == RetentionPolicy.ALL, forall(lambda t: {T1} == {RHS}, Tag))"),
        ("tags-any-sound", f"implies(self.retention_policy == RetentionPolicy.ANY, forall(lambda t: implies({T1}, {RHS}), Tag))"),
        ("tags-any-nonempty", f"implies(self.retention_policy == RetentionPolicy.ANY and exists(lambda t: {RHS}, Tag), exists(lambda t: {T1}, Tag))"),
        ("tags-any-single", f"implies(self.retention_policy == RetentionPolicy.ANY, forall(lambda t, t2: implies({T1} and {T1.replace(', t)', ', t2)')}, t == t2), Tag, Tag))"),
        ("tags-none", f"implies(self.retention_policy == RetentionPolicy.NONE, forall(lambda t: not {T1}, Tag))"),
        FRAME,
    ]
    add(Contract(f"{DP}:Table.cell2_update", kind="assumed",
                 params={"self": "Table", "k0": "Node", "k1": "Node", "candidates": "Seq[Candidate]"}, vararg="candidates",
                 requires=["self.merge_policy == MergePolicy.MIN"],
                 ensures=UPD, modifies=["self.g_val", "self.g_tags"], globals=G, note=PROXY_NOTE, props=["C16"]))
    add(Contract(f"{DP}:Table.cell2_set", kind="assumed",
                 params={"self": "Table", "k0": "Node", "k1": "Node", "candidates": "Seq[Candidate]"}, vararg="candidates",
                 requires=["self.merge_policy == MergePolicy.MIN", "len(candidates) == 1"],
                 ensures=UPD, modifies=["self.g_val", "self.g_tags"], globals=G, note=PROXY_NOTE + " (table[k0][k1] = candidate is update(candidate))", props=["C16"]))
    # Table.entry(): proved from the real AST against the Entry.__init__ contracts
    add(Contract(f"{DP}:Table.entry", params={"self": "Table", "value": "NoneT", "infos": "NoneT"}, returns="Entry", defaults={"value": None, "infos": None},
                 ensures=["result._value == worst(self.merge_policy)", "forall(lambda t: not (t in result._infos), Tag)",
                          "result._merge_policy == self.merge_policy", "result._retention_policy == self.retention_policy"],
                 globals=G, props=["C16", "C01"]))

    # ---- the documented recurrence
    # value of placing child c of the node at species x below s: sub-cost + one full loss per skipped species edge
    E.spec("place_spe", "gv: Map[Tup[Node, Node], Ext], fl: Ext, s: Node, c: Node, x: Node", "Ext", "cellv(gv, c, x) + fl * (dist(s, x) - 1)")
    E.spec("place_dup", "gv: Map[Tup[Node, Node], Ext], fl: Ext, s: Node, c: Node, x: Node", "Ext", "cellv(gv, c, x) + fl * dist(s, x)")

    WFE = lambda e: [
        (f"{e}/policies", f"{e}._merge_policy == MergePolicy.MIN and {e}._retention_policy == table.retention_policy"),
        (f"{e}/wf-any", f"implies({e}._retention_policy == RetentionPolicy.ANY, forall(lambda t, t2: implies(t in {e}._infos and t2 in {e}._infos, t == t2), Tag, Tag))"),
        (f"{e}/wf-truthy", f"forall(lambda t: implies(t in {e}._infos, tag_truthy(t)), Tag)"),
    ]

    def AGG(e, R, place, c, k):
        """entry e aggregates  x |-> place(x)  (tag x) over the first k nodes of the level-order enumeration of the subtree of R.
        Tag clauses are stated without existentials: a retained tag t is the tag of the node node_of_tag(t) (sound), and every
        optimal node's tag is retained under ALL (complete)."""
        F = lambda x: f"{place}(table.g_val, loss_cost, root_species, {c}, {x})"
        IN = lambda x: f"(anc({R}, {x}) and lvl_idx({R}, {x}) < {k})"
        W = "node_of_tag(t)"
        return WFE(e) + [
            (f"{e}/lower", f"forall(lambda x: implies({IN('x')}, not ({F('x')} < {e}._value)), Node)"),
            (f"{e}/attained", f"{e}._value == inf or exists(lambda x: {IN('x')} and {F('x')} == {e}._value, Node)"),
            (f"{e}/tags-sound", f"forall(lambda t: implies(t in {e}._infos, {IN(W)} and {F(W)} == {e}._value and t == tag_of_node({W})), Tag)"),
            (f"{e}/tags-all-complete", f"implies(table.retention_policy == RetentionPolicy.ALL, forall(lambda x: implies({IN('x')} and {F('x')} == {e}._value, tag_of_node(x) in {e}._infos), Node))"),
            (f"{e}/nonempty", f"implies({k} > 0, exists(lambda t: t in {e}._infos, Tag))"),
        ]

    PRE = [
        ("species-tree", "binary(species_lca.tree) and rootof(species_lca.tree) == species_lca.tree and rootof(root_species) == species_lca.tree"),
        ("object-node", "binary(rootof(root_node)) and not leaf(root_node)"),
        ("costs-present", "Event.SPECIATION in costs and Event.DUPLICATION in costs and Event.HORIZONTAL_TRANSFER in costs and Event.FULL_LOSS in costs"),
        ("costs", "is_fin(costs[Event.SPECIATION]) and is_fin(costs[Event.DUPLICATION]) and is_fin(costs[Event.FULL_LOSS]) and costs[Event.SPECIATION] >= 0 and costs[Event.DUPLICATION] >= 0 and costs[Event.HORIZONTAL_TRANSFER] >= 0 and costs[Event.FULL_LOSS] >= 0"),
        ("table-policies", "table.merge_policy == MergePolicy.MIN and table.retention_policy != RetentionPolicy.NONE"),
    ]
    GV0, GT0 = "old(table.g_val)", "old(table.g_tags)"
    U, S = "root_node", "root_species"
    NEWV, OLDV = f"cellv(table.g_val, {U}, {S})", f"cellv({GV0}, {U}, {S})"
    NEWT, OLDT = f"cellt(table.g_val, table.g_tags, {U}, {S}, t)", f"cellt({GV0}, {GT0}, {U}, {S}, t)"
    FRAME_T = ("frame", f"""forall(lambda a, b: implies(a != {U} or b != {S},
                  cellv(table.g_val, a, b) == cellv({GV0}, a, b)
                  and forall(lambda t: cellt(table.g_val, table.g_tags, a, b, t) == cellt({GV0}, {GT0}, a, b, t), Tag)), Node, Node)""")

    def bellman(TERM, PLACED):
        """postcondition clauses for candidates  (x, y) |-> TERM(x, y)  over the placements PLACED(x, y)"""
        INTREE = lambda x, y: f"rootof({x}) == species_lca.tree and rootof({y}) == species_lca.tree"
        WX, WY = "mi_left(t)", "mi_right(t)"
        NEW_OF = lambda x, y: f"({INTREE(x, y)} and {PLACED(x, y)} and {TERM(x, y)} == {NEWV} and is_fin({NEWV}))"
        return [
            ("bellman/not-worse-than-old", f"not ({OLDV} < {NEWV})"),
            ("bellman/lower-bound", f"forall(lambda x, y: implies({INTREE('x', 'y')} and {PLACED('x', 'y')}, not ({TERM('x', 'y')} < {NEWV})), Node, Node)"),
            ("bellman/attained", f"{NEWV} == {OLDV} or exists(lambda x, y: {INTREE('x', 'y')} and {PLACED('x', 'y')} and {TERM('x', 'y')} == {NEWV}, Node, Node)"),
            # every retained placement is optimal: it was retained before and the value did not improve, or it is the tag mi(x, y) of an optimal placement
            ("bellman/tags-sound", f"forall(lambda t: implies({NEWT}, ({OLDT} and {OLDV} == {NEWV}) or ({NEW_OF(WX, WY)} and t == mi({WX}, {WY}))), Tag)"),
            # ALL: every optimal placement is retained, and so is every earlier tag when the value did not improve
            ("bellman/tags-all-complete-new", f"implies(table.retention_policy == RetentionPolicy.ALL, forall(lambda x, y: implies({NEW_OF('x', 'y')}, {NEWT.replace(', t)', ', mi(x, y))')}), Node, Node))"),
            ("bellman/tags-all-complete-old", f"implies(table.retention_policy == RetentionPolicy.ALL, forall(lambda t: implies({OLDT} and {OLDV} == {NEWV}, {NEWT}), Tag))"),
            ("bellman/tags-any-nonempty", f"""implies(table.retention_policy == RetentionPolicy.ANY and (exists(lambda t: {OLDT} and {OLDV} == {NEWV}, Tag)
                   or exists(lambda x, y: {NEW_OF('x', 'y')}, Node, Node)), exists(lambda t: {NEWT}, Tag))"""),
            ("bellman/tags-any-single", f"implies(table.retention_policy == RetentionPolicy.ANY, forall(lambda t, t2: implies({NEWT} and {NEWT.replace(', t)', ', t2)')}, t == t2), Tag, Tag))"),
            FRAME_T,
        ]

    LS, RS = f"left({S})", f"right({S})"
    L, R = f"left({U})", f"right({U})"
    SPE_TERM = lambda x, y: (f"(costs[Event.SPECIATION] + place_spe({GV0}, costs[Event.FULL_LOSS], {S}, {L}, {x}) "
                             f"+ place_spe({GV0}, costs[Event.FULL_LOSS], {S}, {R}, {y}))")
    SPE_PLACED = lambda x, y: f"((anc({LS}, {x}) and anc({RS}, {y})) or (anc({RS}, {x}) and anc({LS}, {y})))"
    PARAMS = {"species_lca": "LowestCommonAncestor", "root_species": "Node", "root_node": "Node", "table": "Table", "costs": "Map[Event, Ext]"}
    ENTRIES = {"min_ltl": "Entry", "min_rtl": "Entry", "min_ltr": "Entry", "min_rtr": "Entry"}
    STABLE = ["table.g_val == old(table.g_val) and table.g_tags == old(table.g_tags)",
              "left_species == left(root_species) and right_species == right(root_species) and left_node == left(root_node) and right_node == right(root_node)",
              "spe_cost == costs[Event.SPECIATION] and loss_cost == costs[Event.FULL_LOSS]"]
    def pair_cuts(star, e1, R1, c1, e2, R2, c2, place, cost):
        P1 = lambda x: f"{place}(table.g_val, loss_cost, root_species, {c1}, {x})"
        P2 = lambda y: f"{place}(table.g_val, loss_cost, root_species, {c2}, {y})"
        OPT = lambda x, y: f"(anc({R1}, {x}) and anc({R2}, {y}) and {P1(x)} == {e1}._value and {P2(y)} == {e2}._value)"
        return f"""
assert {star}._value == {cost} + {e1}._value + {e2}._value
assert exists(lambda t: t in {star}._infos, Tag)
assert forall(lambda t: implies(t in {star}._infos, {OPT('mi_left(t)', 'mi_right(t)')} and t == mi(mi_left(t), mi_right(t))), Tag)
assert implies(table.retention_policy == RetentionPolicy.ALL, forall(lambda x, y: implies({OPT('x', 'y')}, mi(x, y) in {star}._infos), Node, Node))
"""

    def end_cuts(TERM, stars, place):
        """cuts after the cell update: the new value is bounded by both combined entries and, when it changed, equals one of them;
        an optimal placement realises the optimum of both aggregators; a retained tag is old or comes from one of the combined entries"""
        out = []
        for star, e1, R1, c1, e2, R2, c2 in stars:
            P1 = lambda x: f"{place}({GV0}, costs[Event.FULL_LOSS], root_species, {c1}, {x})"
            P2 = lambda y: f"{place}({GV0}, costs[Event.FULL_LOSS], root_species, {c2}, {y})"
            out.append(f"assert not ({star}._value < {NEWV})")
            out.append(f"""assert forall(lambda x, y: implies(anc({R1}, x) and anc({R2}, y) and {TERM('x', 'y')} == {NEWV} and is_fin({NEWV}),
                               {P1('x')} == {e1}._value and {P2('y')} == {e2}._value and {star}._value == {NEWV}), Node, Node)""")
        for star, e1, R1, c1, e2, R2, c2 in stars:
            out.append(f"assert implies(table.retention_policy == RetentionPolicy.ALL, forall(lambda t: implies(t in {star}._infos and {star}._value == {NEWV} and is_fin({NEWV}), {NEWT}), Tag))")
        names = [s[0] for s in stars]
        out.append(f"assert {NEWV} == {OLDV} or " + " or ".join(f"{NEWV} == {n}._value" for n in names))
        srcs = " or ".join(f"(t in {n}._infos and {n}._value == {NEWV} and is_fin({NEWV}))" for n in names)
        out.append(f"assert forall(lambda t: implies({NEWT}, ({OLDT} and {OLDV} == {NEWV}) or {srcs}), Tag)")
        return "\n".join(" ".join(x.split()) for x in out) + "\n"

    SEQ_CUTS = """
assert exists(lambda i: 0 <= i and i < len(arg_candidates) and arg_candidates[i].value == star0._value and arg_candidates[i].info is not None and the(arg_candidates[i].info) in star0._infos, Int)
assert exists(lambda i: 0 <= i and i < len(arg_candidates) and arg_candidates[i].value == star1._value and arg_candidates[i].info is not None and the(arg_candidates[i].info) in star1._infos, Int)
assert forall(lambda i: implies(0 <= i and i < len(arg_candidates), arg_candidates[i].info is not None and ((arg_candidates[i].value == star0._value and the(arg_candidates[i].info) in star0._infos) or (arg_candidates[i].value == star1._value and the(arg_candidates[i].info) in star1._infos))), Int)
assert forall(lambda t: implies(t in star0._infos, exists(lambda i: 0 <= i and i < len(arg_candidates) and arg_candidates[i].value == star0._value and arg_candidates[i].info == t, Int)), Tag)
assert forall(lambda t: implies(t in star1._infos, exists(lambda i: 0 <= i and i < len(arg_candidates) and arg_candidates[i].value == star1._value and arg_candidates[i].info == t, Int)), Tag)
"""
    CUTS_SPE = (pair_cuts("star0", "min_ltl", "left_species", "left_node", "min_rtr", "right_species", "right_node", "place_spe", "spe_cost")
                + pair_cuts("star1", "min_ltr", "right_species", "left_node", "min_rtl", "left_species", "right_node", "place_spe", "spe_cost") + SEQ_CUTS)
    add(Contract(
        f"{M}:_compute_thl_try_speciation", params=PARAMS,
        requires=PRE + [("internal-species", "not leaf(root_species)")],
        ensures=bellman(SPE_TERM, SPE_PLACED),
        modifies=["table.g_val", "table.g_tags"], globals=G, fuel=2,
        loops={
            # entries that a loop does not touch keep what is known about them (the engine havocs only what the body writes)
            0: LoopSpec(header="for left_child in left_species.traverse()", index="k", length="n",
                        invariants=STABLE + AGG("min_ltl", "left_species", "place_spe", "left_node", "k") + AGG("min_rtl", "left_species", "place_spe", "right_node", "k")),
            1: LoopSpec(header="for right_child in right_species.traverse()", index="k", length="n",
                        invariants=STABLE + AGG("min_ltr", "right_species", "place_spe", "left_node", "k") + AGG("min_rtr", "right_species", "place_spe", "right_node", "k")),
        },
        at={"table[root_node][root_species].update(": [
            # cuts: every aggregator retains at least one placement (the subtree it ranges over is not empty)
            "assert anc(left_species, left_species) and 0 <= lvl_idx(left_species, left_species) and lvl_idx(left_species, left_species) < size(left_species)",
            "assert anc(right_species, right_species) and 0 <= lvl_idx(right_species, right_species) and lvl_idx(right_species, right_species) < size(right_species)",
            "assert exists(lambda t: t in min_ltl._infos, Tag)",
            "assert exists(lambda t: t in min_rtl._infos, Tag)",
            "assert exists(lambda t: t in min_ltr._infos, Tag)",
            "assert exists(lambda t: t in min_rtr._infos, Tag)",
        ]},
        before_call={"Table.cell2_update": [CUTS_SPE]},
        epilogue=[end_cuts(SPE_TERM, [("star0", "min_ltl", "left_species", "left_node", "min_rtr", "right_species", "right_node"),
                                      ("star1", "min_ltr", "right_species", "left_node", "min_rtl", "left_species", "right_node")], "place_spe")],
        canary=f"{NEWV} == {OLDV}",
        props=["C01", "C05"]))


def _dup_transfer(E):
    """Bellman contract of _compute_thl_try_duplication_transfer: duplications (both children below s) and the two transfer shapes
    (one child below s, the other in a species incomparable with s), one loop over the whole species tree with a filter per aggregator."""
    add = E.registry.add
    G = {"inf": E.globals["inf"]}
    TREE = "species_lca.tree"
    SEP = lambda x: f"(not anc(root_species, {x}) and not anc({x}, root_species))"
    SUB = lambda x: f"anc(root_species, {x})"
    GV0, GT0 = "old(table.g_val)", "old(table.g_tags)"
    U, S = "root_node", "root_species"
    L, R = f"left({U})", f"right({U})"
    NEWV, OLDV = f"cellv(table.g_val, {U}, {S})", f"cellv({GV0}, {U}, {S})"
    NEWT, OLDT = f"cellt(table.g_val, table.g_tags, {U}, {S}, t)", f"cellt({GV0}, {GT0}, {U}, {S}, t)"
    NEWT_OF = lambda t: f"cellt(table.g_val, table.g_tags, {U}, {S}, {t})"

    WFE = lambda e: [
        (f"{e}/policies", f"{e}._merge_policy == MergePolicy.MIN and {e}._retention_policy == table.retention_policy"),
        (f"{e}/wf-any", f"implies({e}._retention_policy == RetentionPolicy.ANY, forall(lambda t, t2: implies(t in {e}._infos and t2 in {e}._infos, t == t2), Tag, Tag))"),
        (f"{e}/wf-truthy", f"forall(lambda t: implies(t in {e}._infos, tag_truthy(t)), Tag)"),
    ]
    # placement values as the code's tables hold them (current table == old table until the final update)
    PD = lambda gv, fl, c, x: f"place_dup({gv}, {fl}, root_species, {c}, {x})"
    PS = lambda gv, c, x: f"cellv({gv}, {c}, {x})"

    def AGG(e, filt, F, k):
        IN = lambda x: f"(anc({TREE}, {x}) and lvl_idx({TREE}, {x}) < {k} and {filt(x)})"
        W = "node_of_tag(t)"
        return WFE(e) + [
            (f"{e}/lower", f"forall(lambda x: implies({IN('x')}, not ({F('x')} < {e}._value)), Node)"),
            (f"{e}/attained", f"{e}._value == inf or exists(lambda x: {IN('x')} and {F('x')} == {e}._value, Node)"),
            (f"{e}/tags-sound", f"forall(lambda t: implies(t in {e}._infos, {IN(W)} and {F(W)} == {e}._value and t == tag_of_node({W})), Tag)"),
            (f"{e}/tags-all-complete", f"implies(table.retention_policy == RetentionPolicy.ALL, forall(lambda x: implies({IN('x')} and {F('x')} == {e}._value, tag_of_node(x) in {e}._infos), Node))"),
            (f"{e}/nonempty", f"implies(exists(lambda x: {IN('x')}, Node), exists(lambda t: t in {e}._infos, Tag))"),
            (f"{e}/empty-is-inf", f"implies(not exists(lambda t: t in {e}._infos, Tag), {e}._value == inf)"),
        ]

    CUR = "table.g_val"
    ENT = {  # entry -> (filter, value of a placement in the loop's vocabulary, same in the postcondition's vocabulary, child)
        "min_ltc": (SUB, lambda x: PD(CUR, "loss_cost", "left_node", x), lambda x: PD(GV0, "costs[Event.FULL_LOSS]", L, x)),
        "min_rtc": (SUB, lambda x: PD(CUR, "loss_cost", "right_node", x), lambda x: PD(GV0, "costs[Event.FULL_LOSS]", R, x)),
        "min_lts": (SEP, lambda x: PS(CUR, "left_node", x), lambda x: PS(GV0, L, x)),
        "min_rts": (SEP, lambda x: PS(CUR, "right_node", x), lambda x: PS(GV0, R, x)),
    }
    INV = []
    for e, (filt, F, _) in ENT.items():
        INV += AGG(e, filt, F, "k")
    STARS = [("star0", "min_ltc", "min_rtc", "dup_cost"), ("star1", "min_lts", "min_rtc", "hgt_cost"), ("star2", "min_ltc", "min_rts", "hgt_cost")]
    COSTS = {"dup_cost": "costs[Event.DUPLICATION]", "hgt_cost": "costs[Event.HORIZONTAL_TRANSFER]"}
    FAM = []  # (condition(x, y), term(x, y)) in the postcondition's vocabulary, one per star
    for star, e1, e2, cost in STARS:
        f1, _, P1 = ENT[e1]
        f2, _, P2 = ENT[e2]
        FAM.append((lambda x, y, f1=f1, f2=f2: f"({f1(x)} and {f2(y)})",
                    lambda x, y, P1=P1, P2=P2, cost=cost: f"({COSTS[cost]} + {P1(x)} + {P2(y)})"))
    PLACED = lambda x, y: "(" + " or ".join(c(x, y) for c, _ in FAM) + ")"
    TERM = lambda x, y: f"({FAM[0][1](x, y)} if {FAM[0][0](x, y)} else ({FAM[1][1](x, y)} if {FAM[1][0](x, y)} else {FAM[2][1](x, y)}))"
    INTREE = lambda x, y: f"rootof({x}) == {TREE} and rootof({y}) == {TREE}"
    WX, WY = "mi_left(t)", "mi_right(t)"
    NEW_OF = lambda x, y: f"({INTREE(x, y)} and {PLACED(x, y)} and {TERM(x, y)} == {NEWV} and is_fin({NEWV}))"
    FRAME_T = ("frame", f"""forall(lambda a, b: implies(a != {U} or b != {S},
                  cellv(table.g_val, a, b) == cellv({GV0}, a, b)
                  and forall(lambda t: cellt(table.g_val, table.g_tags, a, b, t) == cellt({GV0}, {GT0}, a, b, t), Tag)), Node, Node)""")
    POST = [
        ("bellman/not-worse-than-old", f"not ({OLDV} < {NEWV})"),
        ("bellman/lower-bound", f"forall(lambda x, y: implies({INTREE('x', 'y')} and {PLACED('x', 'y')}, not ({TERM('x', 'y')} < {NEWV})), Node, Node)"),
        ("bellman/attained", f"{NEWV} == {OLDV} or exists(lambda x, y: {INTREE('x', 'y')} and {PLACED('x', 'y')} and {TERM('x', 'y')} == {NEWV}, Node, Node)"),
        ("bellman/tags-sound", f"forall(lambda t: implies({NEWT}, ({OLDT} and {OLDV} == {NEWV}) or ({NEW_OF(WX, WY)} and t == mi({WX}, {WY}))), Tag)"),
        ("bellman/tags-all-complete-new", f"implies(table.retention_policy == RetentionPolicy.ALL, forall(lambda x, y: implies({NEW_OF('x', 'y')}, {NEWT_OF('mi(x, y)')}), Node, Node))"),
        ("bellman/tags-all-complete-old", f"implies(table.retention_policy == RetentionPolicy.ALL, forall(lambda t: implies({OLDT} and {OLDV} == {NEWV}, {NEWT}), Tag))"),
        ("bellman/tags-any-nonempty", f"""implies(table.retention_policy == RetentionPolicy.ANY and (exists(lambda t: {OLDT} and {OLDV} == {NEWV}, Tag)
               or exists(lambda x, y: {NEW_OF('x', 'y')}, Node, Node)), exists(lambda t: {NEWT}, Tag))"""),
        ("bellman/tags-any-single", f"implies(table.retention_policy == RetentionPolicy.ANY, forall(lambda t, t2: implies({NEWT} and {NEWT_OF('t2')}, t == t2), Tag, Tag))"),
        FRAME_T,
    ]

    # ---- cuts
    ATEND = lambda x: f"(anc({TREE}, {x}) and {{F}})"
    before = []
    for star, e1, e2, cost in STARS:
        f1, F1, _ = ENT[e1]
        f2, F2, _ = ENT[e2]
        OPT = lambda x, y: f"(anc({TREE}, {x}) and {f1(x)} and anc({TREE}, {y}) and {f2(y)} and {F1(x)} == {e1}._value and {F2(y)} == {e2}._value)"
        before += [
            f"assert {star}._value == {cost} + {e1}._value + {e2}._value",
            f"assert implies(exists(lambda a: a in {e1}._infos, Tag) and exists(lambda b: b in {e2}._infos, Tag), exists(lambda t: t in {star}._infos, Tag))",
            f"assert implies(not (exists(lambda a: a in {e1}._infos, Tag) and exists(lambda b: b in {e2}._infos, Tag)), {star}._value == inf and not exists(lambda t: t in {star}._infos, Tag))",
            f"assert forall(lambda t: implies(t in {star}._infos, {OPT('mi_left(t)', 'mi_right(t)')} and t == mi(mi_left(t), mi_right(t))), Tag)",
            f"assert implies(table.retention_policy == RetentionPolicy.ALL, forall(lambda x, y: implies({OPT('x', 'y')}, mi(x, y) in {star}._infos), Node, Node))",
        ]
    names = [s[0] for s in STARS]
    for n in names:
        before.append(f"assert implies(exists(lambda t: t in {n}._infos, Tag), exists(lambda i: 0 <= i and i < len(arg_candidates) and arg_candidates[i].value == {n}._value and arg_candidates[i].info is not None and the(arg_candidates[i].info) in {n}._infos, Int))")
    before.append("assert forall(lambda i: implies(0 <= i and i < len(arg_candidates), arg_candidates[i].info is not None and ("
                  + " or ".join(f"(arg_candidates[i].value == {n}._value and the(arg_candidates[i].info) in {n}._infos)" for n in names) + ")), Int)")
    for n in names:
        before.append(f"assert forall(lambda t: implies(t in {n}._infos, exists(lambda i: 0 <= i and i < len(arg_candidates) and arg_candidates[i].value == {n}._value and arg_candidates[i].info == t, Int)), Tag)")
    end = []
    for (star, e1, e2, cost), (cond, term) in zip(STARS, FAM):
        _, _, P1 = ENT[e1]
        _, _, P2 = ENT[e2]
        end.append(f"assert not ({star}._value < {NEWV})")
        end.append(f"""assert forall(lambda x, y: implies({INTREE('x', 'y')} and {cond('x', 'y')} and {term('x', 'y')} == {NEWV} and is_fin({NEWV}),
                        {P1('x')} == {e1}._value and {P2('y')} == {e2}._value and {star}._value == {NEWV}), Node, Node)""")
    for (star, e1, e2, cost), (cond, term) in zip(STARS, FAM):
        # a finite combined value is realised by a placement of its family; under ALL its tags reach the cell when it is the new optimum
        end.append(f"assert implies(is_fin({star}._value), exists(lambda x, y: {INTREE('x', 'y')} and {cond('x', 'y')} and {term('x', 'y')} == {star}._value, Node, Node))")
        end.append(f"assert implies(table.retention_policy == RetentionPolicy.ALL, forall(lambda t: implies(t in {star}._infos and {star}._value == {NEWV} and is_fin({NEWV}), {NEWT}), Tag))")
    for (star, e1, e2, cost), (cond, term) in zip(STARS, FAM):
        # the ALL-completeness clause, family by family
        end.append(f"""assert implies(table.retention_policy == RetentionPolicy.ALL, forall(lambda x, y: implies({INTREE('x', 'y')} and {cond('x', 'y')}
                        and {term('x', 'y')} == {NEWV} and is_fin({NEWV}), {NEWT_OF('mi(x, y)')}), Node, Node))""")
    end.append(f"assert {NEWV} == {OLDV} or " + " or ".join(f"{NEWV} == {n}._value" for n in names))
    end.append(f"assert forall(lambda t: implies({NEWT}, ({OLDT} and {OLDV} == {NEWV}) or "
               + " or ".join(f"(t in {n}._infos and {n}._value == {NEWV} and is_fin({NEWV}))" for n in names) + "), Tag)")
    norm = lambda xs: "\n".join(" ".join(x.split()) for x in xs) + "\n"

    PRE = [
        ("species-tree", "binary(species_lca.tree) and rootof(species_lca.tree) == species_lca.tree and rootof(root_species) == species_lca.tree"),
        ("object-node", "binary(rootof(root_node)) and not leaf(root_node)"),
        ("costs-present", "Event.SPECIATION in costs and Event.DUPLICATION in costs and Event.HORIZONTAL_TRANSFER in costs and Event.FULL_LOSS in costs"),
        ("costs", "is_fin(costs[Event.SPECIATION]) and is_fin(costs[Event.DUPLICATION]) and is_fin(costs[Event.FULL_LOSS]) and costs[Event.SPECIATION] >= 0 and costs[Event.DUPLICATION] >= 0 and costs[Event.HORIZONTAL_TRANSFER] >= 0 and costs[Event.FULL_LOSS] >= 0"),
        ("table-policies", "table.merge_policy == MergePolicy.MIN and table.retention_policy != RetentionPolicy.NONE"),
        ("table-nonneg", "forall(lambda a, b: not (cellv(table.g_val, a, b) < 0), Node, Node)"),
    ]
    STABLE = ["table.g_val == old(table.g_val) and table.g_tags == old(table.g_tags)",
              "left_node == left(root_node) and right_node == right(root_node)",
              "dup_cost == costs[Event.DUPLICATION] and hgt_cost == costs[Event.HORIZONTAL_TRANSFER] and loss_cost == costs[Event.FULL_LOSS]"]
    add(Contract(
        f"{M}:_compute_thl_try_duplication_transfer",
        params={"species_lca": "LowestCommonAncestor", "root_species": "Node", "root_node": "Node", "table": "Table", "costs": "Map[Event, Ext]"},
        requires=PRE, ensures=POST, modifies=["table.g_val", "table.g_tags"], globals=G, fuel=2,
        loops={0: LoopSpec(header="for other_species in species_lca.tree.traverse()", index="k", length="n", invariants=STABLE + INV)},
        at={"table[root_node][root_species].update(": [norm([
            f"assert anc({TREE}, root_species) and 0 <= lvl_idx({TREE}, root_species) and lvl_idx({TREE}, root_species) < size({TREE}) and anc(root_species, root_species)",
            "assert exists(lambda t: t in min_ltc._infos, Tag)",
            "assert exists(lambda t: t in min_rtc._infos, Tag)",
        ])]},
        before_call={"Table.cell2_update": [norm(before)]},
        epilogue=[norm(end)],
        canary=f"{NEWV} == {OLDV}",
        props=["C01", "C05"]))


_setup_spe = setup


def setup(E):  # noqa: F811
    _setup_spe(E)
    _dup_transfer(E)
