"""Contracts for superrec2.utils.range_min_query (property C17, range-minimum part)."""
from pyvc.contracts import Contract, LoopSpec

M = "superrec2.utils.range_min_query"
REQUIRES = ["subsequences"]


def setup(E):
    if "Elem" not in E.tenv.refs:
        E.declare_ref("Elem")
    # the elements are totally ordered by Python's '<'
    E.declare_ref("OElem", order="oelem_lt")
    E.native_ns["oelem_lt"] = lambda a, b: a < b
    # minimum of data[lo:hi] (lo < hi), leftmost on ties like Python's min
    E.spec("rmin", "d: Seq[OElem], lo: Int, hi: Int", "OElem",
           "d[lo] if hi <= lo + 1 else min(d[lo], rmin(d, lo + 1, hi))")
    E.declare_class("RangeMinQuery", {"sparse_table": "Arr[Arr[Opt[OElem]]]", "g_data": "Seq[OElem]"})
    add = E.registry.add
    INV = [
        ("nonempty", "len(self.g_data) >= 1"),
        ("levels", "len(self.sparse_table) == bl(len(self.g_data))"),
        ("rows", "forall(lambda e: implies(0 <= e and e < len(self.sparse_table), len(self.sparse_table[e]) == len(self.g_data)), Int)"),
        ("cells", """forall(lambda e, j: implies(0 <= e and e < len(self.sparse_table) and 0 <= j and j + pow2(e) <= len(self.g_data),
                        self.sparse_table[e][j] == rmin(self.g_data, j, j + pow2(e))), Int, Int)"""),
    ]
    add(Contract(
        f"{M}:_ilog2", params={"value": "Int"}, returns="Int",
        requires=["value >= 1"],
        ensures=["result >= 0", "pow2(result) <= value", "value < pow2(result + 1)", "result == bl(value) - 1"],
        canary="pow2(result + 1) <= value", props=["C17"]))
    add(Contract(
        f"{M}:RangeMinQuery.__init__", params={"self": "RangeMinQuery", "data": "Seq[OElem]"},
        requires=["len(data) >= 1"],
        ensures=INV + [("ghost-data", "self.g_data == data")],
        modifies=["self.*"],
        prologue=["self.g_data = data"],
        loops={
            0: LoopSpec(header="for depth in range(1, levels)", index="ko", length="no",
                        invariants=[
                            "self.g_data == data and length == len(data) and levels == bl(length) and length >= 1",
                            "len(self.sparse_table) == levels",
                            "forall(lambda e: implies(0 <= e and e < levels, len(self.sparse_table[e]) == length), Int)",
                            """forall(lambda e, j: implies(0 <= e and e < 1 + ko and e < levels and 0 <= j and j + pow2(e) <= length,
                                   self.sparse_table[e][j] == rmin(data, j, j + pow2(e))), Int, Int)""",
                        ]),
            1: LoopSpec(header="for i in range(length - 2 ** depth + 1)", index="ki", length="ni",
                        invariants=[
                            "self.g_data == data and length == len(data) and levels == bl(length) and length >= 1",
                            "1 <= depth and depth < levels and depth == 1 + ko",
                            "len(self.sparse_table) == levels",
                            "forall(lambda e: implies(0 <= e and e < levels, len(self.sparse_table[e]) == length), Int)",
                            """forall(lambda e, j: implies(0 <= e and e < depth and 0 <= j and j + pow2(e) <= length,
                                   self.sparse_table[e][j] == rmin(data, j, j + pow2(e))), Int, Int)""",
                            """forall(lambda j: implies(0 <= j and j < ki and j + pow2(depth) <= length,
                                   self.sparse_table[depth][j] == rmin(data, j, j + pow2(depth))), Int)""",
                        ],
                        lemmas=["lemma_rmin_split(data, ki, ki + pow2(depth - 1), ki + pow2(depth))"]),
        },
        canary="len(self.sparse_table) == 0", props=["C17"]))
    add(Contract(
        f"{M}:RangeMinQuery.__call__", params={"self": "RangeMinQuery", "start": "Int", "stop": "Int"}, returns="Opt[OElem]",
        requires=INV + ["0 <= start", "stop <= len(self.g_data)"],
        ensures=[("empty-range", "implies(start >= stop, result is None)"),
                 ("minimum-of-range", "implies(start < stop, result == rmin(self.g_data, start, stop))")],
        at={"return min(": ["lemma_bl_mono(stop - start, len(self.g_data))",
                            "lemma_rmin_overlap(self.g_data, start, stop, pow2(depth))"]},
        canary="start < stop and result is None", props=["C17"]))
    # ---- lemmas
    add(Contract(
        "lemma_rmin_split", kind="lemma", params={"d": "Seq[OElem]", "a": "Int", "b": "Int", "c": "Int"},
        requires=["0 <= a", "a < b", "b < c", "c <= len(d)"],
        ensures=["rmin(d, a, c) == min(rmin(d, a, b), rmin(d, b, c))"],
        body="""
        if a + 1 < b:
            lemma_rmin_split(d, a + 1, b, c)
        """, decreases="b - a", props=["C17"]))
    add(Contract(
        "lemma_rmin_overlap", kind="lemma", params={"d": "Seq[OElem]", "a": "Int", "c": "Int", "p": "Int"},
        requires=["0 <= a", "c <= len(d)", "1 <= p", "p <= c - a", "c - a <= 2 * p"],
        ensures=["rmin(d, a, c) == min(rmin(d, a, a + p), rmin(d, c - p, c))"],
        body="""
        if a < c - p:
            if c - p < a + p:
                lemma_rmin_split(d, a, c - p, c)
                lemma_rmin_split(d, a, c - p, a + p)
                lemma_rmin_split(d, c - p, a + p, c)
            else:
                lemma_rmin_split(d, a, a + p, c)
        """, props=["C17"]))


def _scopes(E):
    import itertools
    from pyvc.driver import Scope
    from pyvc import native

    def gen(tier, rng):
        top = 5 if tier != "thorough" else 8
        for n in range(1, top + 1):
            for data in itertools.product(range(3), repeat=n):
                if tier != "thorough" and n == top and sum(data) % 3:
                    continue
                for start in range(0, n + 1):
                    for stop in range(0, n + 1):
                        yield {"data": list(data), "start": start, "stop": stop}
        for _ in range(30 if tier != "thorough" else 400):
            n = rng.randrange(9, 70)
            data = [rng.randrange(0, 50) for _ in range(n)]
            a, b = rng.randrange(0, n + 1), rng.randrange(0, n + 1)
            yield {"data": data, "start": min(a, b), "stop": max(a, b)}

    def build(recipe, src_root):
        mod = native.import_real(M, src_root)
        q = mod.RangeMinQuery(list(recipe["data"]))
        q.g_data = list(recipe["data"])  # ghost field of the contract
        u = native.Universe()
        u.domains["Int"] = list(range(-1, len(recipe["data"]) + 2))
        return (lambda self, start, stop: self(start, stop)), {"self": q, "start": recipe["start"], "stop": recipe["stop"]}, u

    E.registry.scopes[f"{M}:RangeMinQuery.__call__"] = Scope(
        gen, build, describe="all arrays of length <= 5 (8 thorough) over {0,1,2} x all (start, stop), empty ranges included; 30 (400) random arrays of length 9-69",
        nontrivial=lambda r: r["start"] < r["stop"])

    def gen_init(tier, rng):
        top = 6 if tier != "thorough" else 9
        for n in range(1, top + 1):
            for data in itertools.product(range(3), repeat=n):
                if n >= 5 and sum(data) % (n - 2):
                    continue
                yield {"data": list(data)}
        for n in (15, 16, 17, 31, 32, 33, 64, 65, 100, 128):
            yield {"data": [rng.randrange(0, 30) for _ in range(n)]}

    def build_init(recipe, src_root):
        mod = native.import_real(M, src_root)
        obj = object.__new__(mod.RangeMinQuery)

        def call(self, data):
            mod.RangeMinQuery.__init__(self, data)
            self.g_data = list(data)  # the contract's ghost prologue

        u = native.Universe()
        u.domains["Int"] = list(range(-1, len(recipe["data"]) + 2))
        return call, {"self": obj, "data": list(recipe["data"])}, u

    E.registry.scopes[f"{M}:RangeMinQuery.__init__"] = Scope(
        gen_init, build_init, describe="arrays of length <= 6 (9 thorough) over {0,1,2} (sampled from length 5) and random arrays of lengths 15..128 incl. powers of two: the representation invariant is evaluated on the constructed table")

    def gen_ilog(tier, rng):
        for v in range(1, 4100):
            yield {"value": v}
        for _ in range(50):
            yield {"value": rng.getrandbits(rng.randrange(13, 200)) + 1}

    E.registry.scopes[f"{M}:_ilog2"] = Scope(gen_ilog, describe="all values 1..4099 and 50 random wide integers")


_setup_contracts = setup


def setup(E):  # noqa: F811
    _setup_contracts(E)
    _scopes(E)
